#!/usr/bin/env bash
# run_finding.sh <id> [<git rev>]
#
# Runs the native demonstration of finding <id> (findings/<id>_test.go.txt)
# against /repo at the given revision (default HEAD):
#   - creates a scratch worktree of /repo under $(mktemp -d),
#   - copies the test file to the location named on its first line
#     ("// copy-to: <path relative to the repo root>"),
#   - runs  go test -vet=off -count=1 -run TestFinding <pkg>  offline,
#   - prints PASS or FAIL with the exit status of go test,
#   - always removes the worktree again; nothing is left behind in /repo.
#
# Exit status: 0 = PASS, 1 = FAIL, 2 = usage / setup error.
set -u

REPO=${REPO:-/repo}
HERE=$(cd "$(dirname "${BASH_SOURCE[0]}")" && pwd)
FINDINGS=$HERE/findings

usage() {
	echo "usage: $0 <id> [<git rev>]" >&2
	echo "ids:" >&2
	for f in "$FINDINGS"/*_test.go.txt; do
		[ -e "$f" ] && echo "  $(basename "$f" _test.go.txt)" >&2
	done
	exit 2
}

[ $# -ge 1 ] && [ $# -le 2 ] || usage
id=$1
rev=${2:-HEAD}
src=$FINDINGS/${id}_test.go.txt
[ -f "$src" ] || { echo "no such finding: $id ($src not found)" >&2; usage; }

dest=$(sed -n '1s|^// copy-to: *\([^ ]*\) *$|\1|p' "$src")
case "$dest" in
'' | /* | *..*) echo "$src: first line must be '// copy-to: <relative path>'" >&2; exit 2 ;;
esac
pkg=./$(dirname "$dest")

commit=$(git -C "$REPO" rev-parse --verify --quiet "${rev}^{commit}") ||
	{ echo "unknown revision: $rev" >&2; exit 2; }

export GOFLAGS=-mod=mod GOPROXY=off GOSUMDB=off GOTOOLCHAIN=local

tmp=$(mktemp -d) || exit 2
case "$tmp" in
"$REPO" | "$REPO"/* | /verif | /verif/*) echo "temporary directory $tmp is inside $REPO or /verif" >&2; rmdir "$tmp"; exit 2 ;;
esac
wt=$tmp/wt

cleanup() {
	if ! git -C "$REPO" worktree remove --force "$wt" >/dev/null 2>&1; then
		# the worktree was not (completely) created: drop whatever exists
		# and the administrative entry that may be left in $REPO/.git
		rm -rf "$wt"
		git -C "$REPO" worktree prune >/dev/null 2>&1
	fi
	rm -rf "$tmp"
}
trap cleanup EXIT
trap 'exit 2' INT TERM HUP

git -C "$REPO" worktree add --detach --quiet "$wt" "$commit" ||
	{ echo "cannot create a worktree of $REPO at $rev" >&2; exit 2; }

mkdir -p "$wt/$(dirname "$dest")"
cp "$src" "$wt/$dest" || exit 2

echo "== finding $id at $(git -C "$REPO" log -1 --format='%h %s' "$commit")"
echo "== go test -vet=off -count=1 -run TestFinding $pkg"
(cd "$wt" && go test -vet=off -count=1 -run TestFinding "$pkg")
status=$?

if [ $status -eq 0 ]; then
	echo "PASS (finding $id at $rev: go test exit status $status)"
	exit 0
fi
echo "FAIL (finding $id at $rev: go test exit status $status)"
exit 1
