#!/bin/sh
# Builds the symbolic executor offline from files on disk only, then validates it against the native tool chain
# (tools/engine_selftest.sh, DESIGN.md 2.9; SKIP_ENGINE_SELFTEST=1 skips that step).
set -e
cd /verif/engine
export GOFLAGS=-mod=mod GOPROXY=off GOSUMDB=off GOTOOLCHAIN=local
mkdir -p /verif/bin
go build -o /verif/bin/gosymex .
if [ -z "$SKIP_ENGINE_SELFTEST" ]; then
  out=$(/verif/tools/engine_selftest.sh 2>&1) || { echo "$out"; echo "engine self-test FAILED: the executor disagrees with the native tool chain"; exit 1; }
  echo "$out" | grep -E '^(  H_engine|OK)'
fi
echo "setup ok"
