#!/bin/sh
# Builds the symbolic executor offline from files on disk only.
set -e
cd /verif/engine
export GOFLAGS=-mod=mod GOPROXY=off GOSUMDB=off GOTOOLCHAIN=local
mkdir -p /verif/bin
go build -o /verif/bin/gosymex .
echo "setup ok"
