#!/bin/sh
# usage: check.sh <property> <quick|thorough>  — rebuilds the encoding from /repo's working tree and decides the property.
cd /verif
[ -x /verif/bin/gosymex ] || SKIP_ENGINE_SELFTEST=1 ./setup.sh >/dev/null || exit 2
exec /verif/bin/gosymex check "$1" --tier "${2:-quick}"
