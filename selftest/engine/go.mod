module enginetest

go 1.23
