// Package cases: small Go programs whose results the symbolic executor (run on them through go/ssa) must reproduce
// exactly as the native tool chain computes them. Two families:
//   ztC*: func(a, b int64, s string) string   — run by the executor on CONCRETE inputs (interpreter semantics)
//   ztS*: func(a, b int64) int64              — run by the executor on SYMBOLIC a, b pinned to each input by an
//                                                assumption; the solver must prove result == native result (encoding)
// No identifier here may collide with the package the file is overlaid into (everything is prefixed zt).
package cases

import (
	"bytes"
	"errors"
	"strconv"
	"strings"
	"sync"
	"sync/atomic"
	"time"
)

type ZtInput struct {
	A, B int64
	S    string
}

var ZtInputs = []ZtInput{
	{0, 0, ""},
	{1, 2, "a"},
	{-1, 3, "hello, world"},
	{7, -3, "io.cncf.notary.signingTime"},
	{-9223372036854775808, -1, "ÄöÜ€"},
	{9223372036854775807, 1, "a.b.c"},
	{1234567890123, 1000000007, "  padded \t"},
	{255, 8, "AbC"},
	{-129, 63, "x=1,y=2,,z"},
	{4294967296, 64, "\x00\xff"},
}

// ZtSymInputs: the inputs of the symbolic family - the edge cases above plus pseudo-random pairs of varied magnitude
func ZtSymInputs() []ZtInput {
	out := append([]ZtInput{}, ZtInputs...)
	x := uint64(0x9e3779b97f4a7c15)
	next := func() uint64 {
		x ^= x << 13
		x ^= x >> 7
		x ^= x << 17
		return x
	}
	for i := 0; i < 30; i++ {
		a, b := next(), next()
		a >>= (next() % 8) * 8 // magnitudes from 64 down to 8 bits
		b >>= (next() % 8) * 8
		if next()&1 == 1 {
			a = -a
		}
		if next()&3 == 1 {
			b = -b
		}
		out = append(out, ZtInput{A: int64(a), B: int64(b)})
	}
	return out
}

type ZtCase struct {
	Name string
	F    func(a, b int64, s string) string
}
type ZtSym struct {
	Name string
	F    func(a, b int64) int64
}

func zti(x int64) string  { return strconv.FormatInt(x, 10) }
func ztu(x uint64) string { return strconv.FormatUint(x, 10) }
func ztb(x bool) string {
	if x {
		return "T"
	}
	return "F"
}

// ---------------------------------------------------------------- concrete family

func ztCArith(a, b int64, s string) string {
	r := zti(a+b) + " " + zti(a-b) + " " + zti(a*b) + " " + zti(a&b) + " " + zti(a|b) + " " + zti(a^b) + " " + zti(a&^b)
	if b != 0 {
		r += " " + zti(a/b) + " " + zti(a%b)
	}
	r += " " + zti(-a) + " " + zti(^a)
	return r
}

func ztCShift(a, b int64, s string) string {
	n := uint(b) & 127
	r := zti(a<<n) + " " + zti(a>>n) + " " + ztu(uint64(a)>>n) + " " + ztu(uint64(a)<<n)
	r += " " + zti(int64(int32(a)<<(n&31))) + " " + zti(int64(int8(a)>>(n&7))) + " " + ztu(uint64(uint16(a)>>(n&15)))
	var sh int64 = b
	if sh >= 0 {
		r += " " + zti(a<<sh) + " " + zti(a>>sh) // signed shift counts (>= 64 gives 0 / sign)
	}
	return r
}

func ztCConv(a, b int64, s string) string {
	r := zti(int64(int8(a))) + " " + zti(int64(int16(a))) + " " + zti(int64(int32(a))) + " " + ztu(uint64(uint8(a))) + " " + ztu(uint64(uint16(a))) + " " + ztu(uint64(uint32(a)))
	r += " " + zti(int64(int(a))) + " " + ztu(uint64(uint(a))) + " " + zti(int64(uint32(int8(b)))) + " " + zti(int64(int16(uint8(b))))
	r += " " + zti(int64(rune(a))) + " " + ztu(uint64(byte(b)))
	return r
}

func ztCCmp(a, b int64, s string) string {
	ua, ub := uint64(a), uint64(b)
	return ztb(a < b) + ztb(a <= b) + ztb(a > b) + ztb(a >= b) + ztb(a == b) + ztb(a != b) + ztb(ua < ub) + ztb(ua <= ub) + ztb(ua > ub) + ztb(ua >= ub) +
		ztb(int8(a) < int8(b)) + ztb(uint8(a) < uint8(b)) + ztb(s < "b") + ztb(s == "a") + ztb(s >= "AbC") + ztb(s != "")
}

func ztCDivUnsigned(a, b int64, s string) string {
	ua, ub := uint64(a), uint64(b)
	if ub == 0 {
		return "div0"
	}
	r := ztu(ua/ub) + " " + ztu(ua%ub)
	if int32(b) != 0 {
		r += " " + zti(int64(int32(a)/int32(b))) + " " + zti(int64(int32(a)%int32(b)))
	}
	if uint8(b) != 0 {
		r += " " + ztu(uint64(uint8(a)/uint8(b))) + " " + ztu(uint64(uint8(a)%uint8(b)))
	}
	return r
}

func ztCString(a, b int64, s string) string {
	r := zti(int64(len(s)))
	if len(s) > 0 {
		r += " " + zti(int64(s[0])) + " " + zti(int64(s[len(s)-1])) + " " + s[1:] + "|" + s[:len(s)-1] + "|" + s[len(s)/2:]
	}
	bs := []byte(s)
	for i := range bs {
		if bs[i] >= 'a' && bs[i] <= 'z' {
			bs[i] -= 32
		}
	}
	r += " " + string(bs) + " " + s + s
	n := 0
	for _, c := range s {
		n += int(c)
	}
	r += " " + zti(int64(n))
	for i, c := range s {
		if i > 3 {
			break
		}
		r += " " + zti(int64(i)) + ":" + zti(int64(c))
	}
	r += " " + string(rune(65+len(s)%26)) + " " + string([]rune(s))
	return r
}

func ztCStrings(a, b int64, s string) string {
	r := ztb(strings.HasPrefix(s, "io.")) + ztb(strings.HasSuffix(s, "c")) + ztb(strings.Contains(s, ",")) + ztb(strings.EqualFold(s, "ABC")) + ztb(strings.ContainsRune(s, '.'))
	r += " " + zti(int64(strings.Index(s, "."))) + " " + zti(int64(strings.IndexByte(s, 'c'))) + " " + zti(int64(strings.LastIndex(s, ",")))
	r += " [" + strings.TrimSpace(s) + "] [" + strings.ToLower(s) + "] [" + strings.ToUpper(s) + "] [" + strings.TrimPrefix(s, "a") + "] [" + strings.TrimSuffix(s, "c") + "]"
	parts := strings.Split(s, ",")
	r += " " + zti(int64(len(parts))) + " " + strings.Join(parts, "+")
	before, after, found := strings.Cut(s, ".")
	r += " " + before + "|" + after + "|" + ztb(found)
	r += " " + strings.Repeat(s, int(b&3)) + " " + strings.ReplaceAll(s, ".", "::")
	var sb strings.Builder
	sb.WriteString(s)
	sb.WriteByte('!')
	sb.WriteString(zti(a))
	r += " " + sb.String() + " " + zti(int64(sb.Len()))
	f := strings.Fields(s)
	r += " " + zti(int64(len(f)))
	return r
}

func ztCStrconv(a, b int64, s string) string {
	r := strconv.Itoa(int(a)) + " " + strconv.FormatInt(a, 16) + " " + strconv.FormatInt(b, 2) + " " + strconv.FormatUint(uint64(a), 36) + " " + strconv.Quote(s)
	n, err := strconv.Atoi(zti(b))
	r += " " + zti(int64(n)) + ztb(err == nil)
	_, err = strconv.Atoi(s)
	r += ztb(err == nil)
	v, err := strconv.ParseInt("-"+zti(b&0xffff), 10, 64)
	r += " " + zti(v) + ztb(err == nil) + " " + strconv.FormatBool(a > b)
	return r
}

func ztCSlices(a, b int64, s string) string {
	var xs []int64
	r := ztb(xs == nil) + zti(int64(len(xs))) + zti(int64(cap(xs)))
	for i := int64(0); i < 10; i++ {
		xs = append(xs, a+i*b)
	}
	ys := xs[2:5]
	ys[0] = 99
	ys = append(ys, -1) // overwrites xs[5]
	zs := xs[2:5:5]
	zs = append(zs, -2) // reallocates
	zs[0] = 77
	r += " " + zti(xs[2]) + " " + zti(xs[5]) + " " + zti(zs[0]) + " " + zti(int64(len(ys))) + " " + zti(int64(cap(xs[2:5:7]))) + " " + zti(int64(len(zs)))
	cp := make([]int64, 4)
	n := copy(cp, xs[7:])
	r += " " + zti(int64(n)) + " " + zti(cp[0]) + zti(cp[3])
	n = copy(xs[1:], xs[:4]) // overlapping
	r += " " + zti(int64(n))
	for _, x := range xs {
		r += "," + zti(x)
	}
	bs := append([]byte("ab"), s...)
	r += " " + string(bs) + " " + zti(int64(len(bs)))
	var arr [4]int32
	arr2 := arr
	arr2[1] = int32(a)
	pa := &arr
	pa[2] = int32(b)
	r += " " + zti(int64(arr[1])) + zti(int64(arr2[1])) + zti(int64(arr[2])) + ztb(arr == arr2)
	sl := arr[:]
	sl[3] = 5
	r += zti(int64(arr[3]))
	empty := []int{}
	r += ztb(empty == nil) + ztb(len(xs[:0]) == 0)
	mat := [][]int{{1, 2}, {3}}
	mat[1] = append(mat[1], 4, 5)
	r += zti(int64(len(mat[1]))) + zti(int64(mat[1][2]))
	clear(cp)
	r += zti(cp[0]) + zti(int64(min(len(cp), 9, 7))) + zti(max(a, b))
	return r
}

type ztPoint struct {
	X, Y int64
	Tag  string
}
type ztNamed struct {
	ztPoint
	Z    int64
	next *ztNamed
}

func (p ztPoint) Sum() int64      { return p.X + p.Y }
func (p *ztPoint) Scale(k int64)  { p.X *= k; p.Y *= k }
func (n ztNamed) String() string  { return n.Tag + zti(n.X) + zti(n.Z) }
func (n *ztNamed) Push(z int64)   { n.next = &ztNamed{ztPoint: n.ztPoint, Z: n.Z, next: n.next}; n.Z = z }
func (n *ztNamed) Depth() int64 {
	d := int64(0)
	for p := n; p != nil; p = p.next {
		d++
	}
	return d
}

func ztCStructs(a, b int64, s string) string {
	p := ztPoint{a, b, s}
	q := p
	q.X++
	pp := &p
	pp.Scale(2)
	n := ztNamed{ztPoint: q, Z: 5}
	n.Scale(3)
	n.Push(a)
	n.Push(b)
	m := n // copy shares next
	m.Z = 1
	r := zti(p.X) + " " + zti(q.X) + " " + zti(p.Sum()) + " " + n.String() + " " + zti(n.Depth()) + " " + zti(m.next.Z) + " " + ztb(p == q) + ztb(q == ztPoint{a + 1, b, s})
	f := pp.Sum
	g := (*ztPoint).Scale
	g(pp, -1)
	r += " " + zti(f()) + " " + zti(pp.Sum())
	anon := struct {
		A [2]ztPoint
		B *int64
	}{}
	anon.A[1].X = a
	anon.B = &anon.A[1].X
	*anon.B += 10
	r += " " + zti(anon.A[1].X)
	return r
}

func ztCMaps(a, b int64, s string) string {
	m := map[string]int64{}
	var nilm map[string]int64
	v, ok := nilm["x"]
	r := zti(v) + ztb(ok) + zti(int64(len(nilm)))
	for i, part := range strings.Split(s, ",") {
		m[part] += int64(i) + a
	}
	m["k"] = b
	m["k"]++
	delete(m, "a")
	delete(m, "absent")
	_, has := m["a"]
	r += " " + zti(int64(len(m))) + ztb(has) + " " + zti(m["k"]) + " " + zti(m["nope"])
	sum := int64(0)
	cnt := 0
	for k, v := range m {
		sum += v + int64(len(k))
		cnt++
	}
	r += " " + zti(sum) + " " + zti(int64(cnt))
	type key struct {
		a int64
		b string
	}
	km := map[key]*ztPoint{{a, s}: {X: 1}}
	km[key{a, s}].X += 5
	if p, ok := km[key{a, s}]; ok {
		r += " " + zti(p.X)
	}
	if _, ok := km[key{b, s}]; ok {
		r += " same"
	}
	im := map[interface{}]string{1: "int", int64(1): "int64", "1": "string", true: "bool"}
	r += " " + im[1] + im[int64(1)] + im["1"] + im[true] + im[false] + zti(int64(len(im)))
	set := map[int64]bool{a: true, b: true}
	r += " " + zti(int64(len(set)))
	return r
}

type ztShape interface {
	Area() int64
	Name() string
}
type ztSq struct{ s int64 }
type ztRect struct{ w, h int64 }

func (q ztSq) Area() int64     { return q.s * q.s }
func (q ztSq) Name() string    { return "sq" }
func (q *ztRect) Area() int64  { return q.w * q.h }
func (q *ztRect) Name() string { return "rect" }

type ztErr struct{ code int64 }

func (e *ztErr) Error() string { return "E" + zti(e.code) }

type ztWrap struct {
	msg string
	err error
}

func (w *ztWrap) Error() string { return w.msg + ": " + w.err.Error() }
func (w *ztWrap) Unwrap() error { return w.err }

var ztSentinel = errors.New("sentinel")

func ztClassify(x interface{}) string {
	switch v := x.(type) {
	case nil:
		return "nil"
	case int:
		return "int" + zti(int64(v))
	case int64:
		return "int64" + zti(v)
	case string:
		return "string" + v
	case []byte:
		return "bytes" + zti(int64(len(v)))
	case ztShape:
		return "shape" + v.Name()
	case error:
		return "error" + v.Error()
	case func() int64:
		return "func" + zti(v())
	}
	return "other"
}

func ztCIfaces(a, b int64, s string) string {
	shapes := []ztShape{ztSq{a}, &ztRect{a, b}}
	r := ""
	for _, sh := range shapes {
		r += sh.Name() + zti(sh.Area()) + " "
	}
	var e error
	r += ztb(e == nil)
	var pe *ztErr
	e = pe // typed nil
	r += ztb(e == nil) + ztb(pe == nil)
	e = &ztWrap{"outer", &ztWrap{"mid", ztSentinel}}
	r += ztb(errors.Is(e, ztSentinel)) + ztb(errors.Is(e, errors.New("sentinel"))) + " " + e.Error()
	var w *ztWrap
	r += ztb(errors.As(e, &w)) + w.msg
	var ze *ztErr
	r += ztb(errors.As(e, &ze))
	e2 := &ztWrap{"x", &ztErr{b}}
	r += ztb(errors.As(e2, &ze)) + zti(ze.code) + " " + errors.Unwrap(e2).Error()
	r += " " + ztClassify(nil) + ztClassify(int(a)) + ztClassify(a) + ztClassify(s) + ztClassify([]byte(s)) + ztClassify(ztSq{2}) + ztClassify(e2) + ztClassify(func() int64 { return b }) + ztClassify(3.5)
	_, isRect := shapes[0].(*ztRect)
	sq, isSq := shapes[0].(ztSq)
	r += ztb(isRect) + ztb(isSq) + zti(sq.s)
	var any1, any2 interface{} = a, a
	r += ztb(any1 == any2) + ztb(any1 == interface{}(int(a))) + ztb(shapes[0] == ztShape(ztSq{a}))
	return r
}

func ztCClosures(a, b int64, s string) string {
	ctr := int64(0)
	inc := func(d int64) int64 { ctr += d; return ctr }
	inc(a)
	inc(b)
	var fs []func() int64
	for i := int64(0); i < 3; i++ {
		fs = append(fs, func() int64 { return i * a }) // per-iteration variable (go 1.22)
	}
	r := zti(ctr)
	for _, f := range fs {
		r += " " + zti(f())
	}
	mk := func(pre string) func(string) string {
		return func(x string) string { pre += x; return pre }
	}
	g := mk(s)
	g("1")
	r += " " + g("2")
	var fib func(n int64) int64
	fib = func(n int64) int64 {
		if n < 2 {
			return n
		}
		return fib(n-1) + fib(n-2)
	}
	r += " " + zti(fib(b&15))
	r += " " + zti(ztVariadic(1)) + zti(ztVariadic(1, 2, 3)) + zti(ztVariadic(1, []int64{a, b}...))
	return r
}

func ztVariadic(x int64, rest ...int64) int64 {
	for _, v := range rest {
		x += v
	}
	return x*10 + int64(len(rest))
}

func ztDeferOrder(a int64, log *string) (res int64) {
	defer func() { *log += "d1;"; res *= 2 }()
	for i := 0; i < 3; i++ {
		defer func(k int) { *log += "l" + zti(int64(k)) + ";" }(i)
	}
	defer func() {
		if r := recover(); r != nil {
			*log += "rec;"
			res = -1
		}
	}()
	if a%2 == 0 {
		panic("even")
	}
	return a
}

func ztMayPanic(a, b int64, s string, kind int64) (out string) {
	defer func() {
		if r := recover(); r != nil {
			switch v := r.(type) {
			case *ztErr:
				out = "zt:" + v.Error()
			case error: // a run-time error; the wording of the message is not compared
				out = "rt"
			case string:
				out = "str:" + v
			default:
				out = "other"
			}
		}
	}()
	switch kind {
	case 0:
		return zti(a / b)
	case 1:
		xs := []int64{1, 2, 3}
		return zti(xs[a&7])
	case 2:
		var p *ztPoint
		return zti(p.X + a)
	case 3:
		var m map[string]int
		m[s] = 1
		return "stored"
	case 4:
		var i interface{} = s
		return zti(i.(int64))
	case 5:
		return s[b&31:]
	case 6:
		panic(&ztErr{a})
	case 7:
		var sh ztShape
		return sh.Name()
	case 8:
		xs := make([]int, 2, 4)
		return zti(int64(len(xs[:a&7])))
	}
	return "none"
}

func ztCDefer(a, b int64, s string) string {
	log := ""
	r := zti(ztDeferOrder(a, &log)) + " " + log
	for k := int64(0); k < 10; k++ {
		r += " " + ztMayPanic(a, b, s, k)
	}
	return r
}

func ztCControl(a, b int64, s string) string {
	r := ""
	n := a & 15
outer:
	for i := int64(0); i < 6; i++ {
		for j := int64(0); j < 6; j++ {
			switch {
			case j == 4:
				continue outer
			case i == 4:
				break outer
			case (i+j+n)%3 == 0:
				continue
			}
			r += zti(i*10 + j)
		}
	}
	switch x := b & 3; x {
	case 0:
		r += " zero"
		fallthrough
	case 1:
		r += " one"
	case 2, 3:
		r += " big"
	default:
		r += " never"
	}
	i := 0
loop:
	if i < 3 {
		r += "g"
		i++
		goto loop
	}
	for i := range 3 {
		r += zti(int64(i))
	}
	x, y := a, b
	x, y = y, x+y
	r += " " + zti(x) + zti(y)
	if v := a &^ 1; v == a {
		r += " even"
	} else if v+1 == a && a > 0 {
		r += " oddpos"
	} else {
		r += " oddneg"
	}
	return r
}

type ztStack[T any] struct{ items []T }

func (s *ztStack[T]) Push(x T) { s.items = append(s.items, x) }
func (s *ztStack[T]) Pop() (T, bool) {
	var zero T
	if len(s.items) == 0 {
		return zero, false
	}
	x := s.items[len(s.items)-1]
	s.items = s.items[:len(s.items)-1]
	return x, true
}
func ztMapF[T, U any](xs []T, f func(T) U) []U {
	var out []U
	for _, x := range xs {
		out = append(out, f(x))
	}
	return out
}
func ztSumN[T int64 | int32 | uint8](xs ...T) T {
	var t T
	for _, x := range xs {
		t += x
	}
	return t
}

func ztCGenerics(a, b int64, s string) string {
	var st ztStack[string]
	st.Push(s)
	st.Push("top")
	x, _ := st.Pop()
	y, _ := st.Pop()
	_, ok := st.Pop()
	is := ztStack[int64]{}
	is.Push(a)
	v, _ := is.Pop()
	strs := ztMapF([]int64{a, b}, zti)
	r := x + y + ztb(ok) + zti(v) + strings.Join(strs, "/") + " " + zti(ztSumN(a, b)) + " " + zti(int64(ztSumN(uint8(a), uint8(b), 200))) + " " + zti(int64(ztSumN[int32](int32(a), int32(b))))
	return r
}

func ztCConcurrency(a, b int64, s string) string {
	var wg sync.WaitGroup
	var mu sync.Mutex
	res := make([]int64, 2)
	total := int64(0)
	for i := range res {
		wg.Add(1)
		go func(i int) {
			defer wg.Done()
			res[i] = a * int64(i)
			mu.Lock()
			total += b
			mu.Unlock()
		}(i)
	}
	wg.Wait()
	ch := make(chan int64, 3)
	ch <- a
	ch <- b
	close(ch)
	r := zti(res[1]) + " " + zti(total)
	for v := range ch {
		r += " " + zti(v)
	}
	v, ok := <-ch
	r += " " + zti(v) + ztb(ok)
	done := make(chan string, 1)
	go func() { done <- s + "!" }()
	r += " " + <-done
	select {
	case x := <-done:
		r += x
	default:
		r += " empty"
	}
	var once sync.Once
	for i := 0; i < 3; i++ {
		once.Do(func() { r += " once" })
	}
	return r
}

// per-iteration variables written by the spawner before the go statement and read by the goroutine: ordered by the go
// statement, not a race
func ztCCaptured(a, b int64, s string) string {
	xs := []int64{a, b, a + b}
	out := make([]int64, len(xs))
	var wg sync.WaitGroup
	for i, x := range xs {
		next := xs[min(i+1, len(xs)-1)]
		label := s + zti(int64(i))
		wg.Add(1)
		go func() {
			defer wg.Done()
			out[i] = x*2 + next + int64(len(label))
		}()
	}
	wg.Wait()
	return zti(out[0]) + " " + zti(out[1]) + " " + zti(out[2])
}

func ztCAtomics(a, b int64, s string) string {
	var n atomic.Int64
	var flag atomic.Bool
	var p atomic.Pointer[ztPoint]
	var raw int32
	var rw sync.RWMutex
	shared := map[string]int64{}
	var wg sync.WaitGroup
	for i := int64(0); i < 2; i++ {
		wg.Add(1)
		go func(i int64) {
			defer wg.Done()
			n.Add(a + i)
			atomic.AddInt32(&raw, int32(b))
			if i == 1 {
				flag.Store(true)
				p.CompareAndSwap(nil, &ztPoint{X: a, Y: b})
			}
			rw.Lock()
			shared[s] += i + 1
			rw.Unlock()
			rw.RLock()
			_ = shared[s]
			rw.RUnlock()
		}(i)
	}
	wg.Wait()
	old := n.Swap(5)
	ok1 := n.CompareAndSwap(5, 6)
	ok2 := n.CompareAndSwap(5, 7)
	r := zti(old) + " " + zti(n.Load()) + ztb(ok1) + ztb(ok2) + " " + zti(int64(atomic.LoadInt32(&raw))) + ztb(flag.Load()) + " " + zti(shared[s])
	if q := p.Load(); q != nil {
		r += " " + zti(q.X+q.Y)
	}
	var v atomic.Uint32
	v.Store(uint32(a))
	r += " " + ztu(uint64(v.Add(7)))
	return r
}

func ztCBytes(a, b int64, s string) string {
	x := []byte(s)
	y := append([]byte(nil), x...)
	r := ztb(bytes.Equal(x, y)) + ztb(bytes.Equal(x, nil)) + ztb(bytes.Equal(nil, []byte{}))
	if len(y) > 0 {
		y[0] ^= 1
	}
	r += ztb(bytes.Equal(x, y)) + ztb(string(x) == s) + ztb(bytes.HasPrefix(x, []byte("io")))
	var buf bytes.Buffer
	buf.WriteString(s)
	buf.WriteByte(byte(a))
	buf.Write(x)
	r += " " + zti(int64(buf.Len())) + " " + strconv.Quote(buf.String())
	return r
}

func ztCTime(a, b int64, s string) string {
	t0 := time.Unix(a%4000000000, (b&0x3fffffff)%1000000000).UTC()
	t1 := t0.Add(time.Duration(b%1000000) * time.Millisecond)
	var zero time.Time
	r := ztb(t0.Before(t1)) + ztb(t0.After(t1)) + ztb(t0.Equal(t1)) + ztb(zero.IsZero()) + ztb(t0.IsZero()) + " " + zti(t1.Sub(t0).Milliseconds()) + " " + zti(t0.Unix()) + " " + zti(int64(t0.Nanosecond()))
	tr := t0.Truncate(time.Second)
	r += " " + zti(tr.Unix()) + zti(int64(tr.Nanosecond())) + ztb(tr.Equal(t0)) + ztb(!tr.After(t0))
	r += " " + zti(int64(time.Duration(a%100000)*time.Second/time.Minute))
	return r
}

var ztTable = [256]uint8{0: 1, 127: 2, 128: 3, 200: 4, 255: 5}

func ztCTable(a, b int64, s string) string {
	r := zti(int64(ztTable[uint8(a)])) + zti(int64(ztTable[byte(b)])) + zti(int64(ztTable[uint8(a)|0x80]))
	for i := 0; i < len(s); i++ {
		r += zti(int64(ztTable[s[i]]))
	}
	idx := uint16(a) | 0x8000
	big := make([]int32, 65536)
	big[idx] = 7
	r += zti(int64(big[idx])) + zti(int64(len(big[idx:])))
	return r
}

var ZtCases = []ZtCase{
	{"Table", ztCTable},
	{"Arith", ztCArith}, {"Shift", ztCShift}, {"Conv", ztCConv}, {"Cmp", ztCCmp}, {"DivUnsigned", ztCDivUnsigned},
	{"String", ztCString}, {"Strings", ztCStrings}, {"Strconv", ztCStrconv}, {"Slices", ztCSlices}, {"Structs", ztCStructs},
	{"Maps", ztCMaps}, {"Ifaces", ztCIfaces}, {"Closures", ztCClosures}, {"Defer", ztCDefer}, {"Control", ztCControl},
	{"Generics", ztCGenerics}, {"Concurrency", ztCConcurrency}, {"Atomics", ztCAtomics}, {"Captured", ztCCaptured}, {"Bytes", ztCBytes}, {"Time", ztCTime},
}

// ---------------------------------------------------------------- symbolic family (integers only)

func ztSArith(a, b int64) int64 {
	r := a + b*3 - (a ^ b) + (a & b) - (a | b) + (a &^ b) + -a + ^b
	if b != 0 {
		r += a/b + a%b*7
	}
	return r
}
func ztSUnsigned(a, b int64) int64 {
	ua, ub := uint64(a), uint64(b)
	r := ua*ub + ua>>3 + ub<<5
	if ub != 0 {
		r += ua/ub + ua%ub
	}
	if ua < ub {
		r ^= 0xdeadbeef
	}
	if ua >= ub {
		r += 17
	}
	return int64(r)
}
func ztSNarrow(a, b int64) int64 {
	x := int8(a) + int8(b)
	y := uint8(a) * uint8(b)
	z := int16(a) - int16(b)
	w := uint32(a) + uint32(b)
	v := int32(a) * int32(b)
	r := int64(x) + int64(y)*3 + int64(z)*5 + int64(w)*7 + int64(v)*11
	if int8(b) != 0 {
		r += int64(int8(a)/int8(b)) + int64(int8(a)%int8(b))
	}
	if uint16(b) != 0 {
		r += int64(uint16(a)/uint16(b)) + int64(uint16(a)%uint16(b))
	}
	if x < 0 {
		r++
	}
	if y > 200 {
		r += 2
	}
	return r
}
func ztSShift(a, b int64) int64 {
	n := uint64(b)
	r := a<<(n&63) ^ a>>(n&63) ^ int64(uint64(a)>>(n&63))
	r += a << n // count may exceed the width
	r += a >> n
	r += int64(uint64(a) >> n)
	r += int64(int32(a) << (n & 31))
	r += int64(uint8(a) >> (n & 15))
	r += int64(int16(a) >> (n & 31))
	if b >= 0 {
		r += a<<b + a>>b
	}
	return r
}
func ztSBranch(a, b int64) int64 {
	r := int64(0)
	switch {
	case a < b && a > 0:
		r = 1
	case a == b:
		r = 2
	case a > b || b < 0:
		r = 3
	default:
		r = 4
	}
	if !(a <= b) != (a > b) {
		r += 100
	}
	for i := int64(0); i < 5; i++ {
		if (a+i)&1 == 0 {
			r += i
		} else {
			r -= b & 3
		}
	}
	return r
}
func ztSArray(a, b int64) int64 {
	var arr [8]int64
	for i := range arr {
		arr[i] = a + int64(i)*b
	}
	idx := uint64(a) & 7
	arr[idx] = -5
	j := uint64(b) & 7
	s := arr[2:6]
	r := arr[j] + s[idx&3]
	p := &arr[j]
	*p += 9
	r += arr[j] + int64(len(s[:idx&3]))
	return r
}
func ztSStruct(a, b int64) int64 {
	type pt struct{ x, y int64 }
	ps := []pt{{a, b}, {b, a}, {a + b, a - b}}
	k := uint64(a) % 3
	q := ps[k]
	q.x++
	ps[(k+1)%3].y = q.x
	r := int64(0)
	for _, p := range ps {
		r = r*31 + p.x - p.y
	}
	m := max(a, b) - min(a, b)
	return r + m
}
func ztSMulWide(a, b int64) int64 {
	hi := (a >> 32) * (b >> 32)
	lo := (a & 0xffffffff) * (b & 0xffffffff)
	return hi ^ lo ^ (a * b)
}
func ztSLoop(a, b int64) int64 {
	n := uint64(a) & 31
	r := int64(1)
	for i := uint64(0); i < n; i++ {
		r = r*3 + b
		if r < 0 {
			r = -r
		}
	}
	x, y := uint64(a)&0xffff, uint64(b)&0xffff
	for y != 0 { // gcd
		x, y = y, x%y
	}
	return r + int64(x)
}
func ztSBool(a, b int64) int64 {
	p, q := a > 0, b > 0
	r := int64(0)
	if p && q {
		r |= 1
	}
	if p || q {
		r |= 2
	}
	if p != q {
		r |= 4
	}
	if !p && (q || a == b) {
		r |= 8
	}
	f := func(x bool) int64 {
		if x {
			return 16
		}
		return 32
	}
	return r | f(p == q)
}

var ZtSyms = []ZtSym{
	{"Arith", ztSArith}, {"Unsigned", ztSUnsigned}, {"Narrow", ztSNarrow}, {"Shift", ztSShift}, {"Branch", ztSBranch},
	{"Array", ztSArray}, {"Struct", ztSStruct}, {"MulWide", ztSMulWide}, {"Loop", ztSLoop}, {"Bool", ztSBool},
}
