#!/bin/sh
# every repaired finding, taken out again, must be reported by the check of its property
rc=0
for pair in F5:C10 F3:C09 F3:C05 F1:C04 F1:C06 F2:C09 F9:C17 F6-COSE_F7:C16 F10:C20 F6-JWS:C16 F8:C16 F4:C08 F16:C16 F15:C08 F14:C16 F13:C08 F11:C02 F11:C01 F11:C07 F11:C13 F11:C08; do
  f=${pair%%:*}; c=${pair##*:}
  out=$(/verif/selftest/unfix.sh $f $c 2>&1); e=$?
  v=$(echo "$out" | grep -c '^VIOLATION')
  ids=$(echo "$out" | grep -E '^  (assert|panic|PANIC|race|deadlock)' | sed 's/ in H_.*//' | sort -u | head -4 | tr '\n' ';')
  echo "$f $c exit=$e violations=$v $ids"
  [ $e -eq 1 ] || rc=1
done
exit $rc
