#!/bin/sh
# usage: benign.sh <Bxx> [Cprop ...] — runs the quick checks (default: all claimed) against /repo with the
# behaviour-preserving change /verif/selftest/benign/<Bxx>.patch applied through overlays (the working tree of
# /repo is not touched; new files of the patch are overlaid as well). Expected: every check exits 0 — a VIOLATION
# here is a false alarm of the machinery, an exit 2 is a check that lost its footing (stale harness, engine gap).
id=$1; shift
p=/verif/selftest/benign/$id.patch
[ -f $p ] || { echo "no such patch $p"; exit 2; }
tmp=$(mktemp -d)
trap 'rm -rf $tmp' EXIT
ov=""
for file in $(sed -n 's/^+++ b\///p' $p); do
  mkdir -p $tmp/$(dirname $file)
  [ -f /repo/$file ] && cp /repo/$file $tmp/$file
done
patch -s -p1 -d $tmp < $p || exit 2
for file in $(sed -n 's/^+++ b\///p' $p); do ov="$ov --overlay /repo/$file=$tmp/$file"; done
props="$@"
[ -z "$props" ] && props=$(python3 -c "import json;print(' '.join(c['property_id'] for c in json.load(open('/verif/MANIFEST.json'))['checks']))" 2>/dev/null)
rc=0
for c in $props; do
  s=$(date +%s)
  out=$(/verif/bin/gosymex check $c --no-evidence $ov 2>&1); e=$?
  echo "$id $c exit=$e $(( $(date +%s)-s ))s $(echo "$out" | grep -E '^(OK|VIOLATION|INCONCLUSIVE|HARNESS-STALE|KNOWN)' | head -2 | tr '\n' ' ')"
  if [ $e -ne 0 ]; then rc=1; echo "$out" | grep -E '^  (assert|panic|PANIC|race|deadlock|abort|leak|engine|error)|STALE|engine error|INCONCLUSIVE' | sort | uniq -c | head -8; fi
done
exit $rc
