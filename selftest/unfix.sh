#!/bin/sh
# usage: unfix.sh <Fid> <Cxx> [extra gosymex args] — runs the check of property Cxx against /repo with the repair of
# finding Fid taken out again (selftest/unfix/<Fid>.patch = reverse of the "fix:" commit), through overlays; the
# working tree of /repo is not touched. The check is expected to report the violation again (exit 1).
set -e
id=$1; prop=$2; shift 2
p=/verif/selftest/unfix/$id.patch
tmp=$(mktemp -d)
trap 'rm -rf $tmp' EXIT
ov=""
for file in $(sed -n 's/^--- a\///p' $p); do
  mkdir -p $tmp/$(dirname $file)
  cp /repo/$file $tmp/$file
  ov="$ov --overlay /repo/$file=$tmp/$file"
done
patch -s -p1 -d $tmp < $p
/verif/bin/gosymex check $prop --no-evidence $ov "$@"
