#!/bin/sh
# usage: seeded.sh <Sxx_Cyy> [Cprop] [extra gosymex args] — runs the check of the seeded change's property against /repo
# with /verif/seeded/<id>/patch.diff applied through overlays (the working tree of /repo is not touched).
# Expected: exit 1 with a VIOLATION line.
set -e
id=$1; shift
prop=$(echo $id | sed 's/.*_\(C[0-9]*\)$/\1/')
case "$1" in C[0-9][0-9]) prop=$1; shift;; esac
p=/verif/seeded/$id/patch.diff
tmp=$(mktemp -d)
trap 'rm -rf $tmp' EXIT
ov=""
for file in $(sed -n 's/^--- a\///p' $p); do
  mkdir -p $tmp/$(dirname $file)
  cp /repo/$file $tmp/$file
  ov="$ov --overlay /repo/$file=$tmp/$file"
done
patch -s -p1 -d $tmp < $p
/verif/bin/gosymex check $prop --no-evidence $ov "$@"
