#!/bin/sh
# every seeded change of /verif/seeded must be reported by the check of the property it breaks
rc=0
for d in /verif/seeded/S*; do
  id=$(basename $d)
  out=$(/verif/selftest/seeded.sh $id 2>&1); e=$?
  v=$(echo "$out" | grep -c '^VIOLATION')
  ids=$(echo "$out" | grep -E '^  (assert|panic|PANIC|race|deadlock|abort|leak)' | sed 's/ in H_.*//;s/^ *//' | sort -u | head -3 | tr '\n' ';')
  echo "$id exit=$e violations=$v $ids"
  [ $e -eq 1 ] || rc=1
done
exit $rc
