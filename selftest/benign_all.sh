#!/bin/sh
# every behaviour-preserving change of selftest/benign against the checks of the properties that live in the area it
# touches; expected: exit 0 everywhere (results of the last run: selftest/benign/RESULTS.txt)
rc=0
run() { /verif/selftest/benign.sh "$@" || rc=1; }
run B1 C05 C10 C12 C06 C09
run B2 C04 C17 C12 C06 C09
run B3 C03 C14 C09
run B4 C01 C07 C13 C08 C16 C20 C02
run B5 C01 C07 C13 C08 C16 C20 C15
run B6 C02 C19 C20 C16 C07 C13
run B7 C18 C05
run B8 C11 C12 C17 C15 C06
run B9 C17 C11 C12 C06 C09
run B10 C17 C12 C04 C06
run B11 C05 C10 C18
run B12 C16 C08 C15 C20 C07 C13
run B13 C16 C20 C02
exit $rc
