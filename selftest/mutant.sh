#!/bin/sh
# usage: mutant.sh <Mid> [extra gosymex args]   — runs the check of the mutant's property against the mutated
# file through an overlay (the working tree of /repo is not touched).
set -e
id=$1; shift
cd /verif/selftest/mutants
p=$(ls ${id}_C*.patch)
prop=$(echo $p | sed 's/.*_\(C[0-9]*\)\.patch/\1/')
file=$(sed -n 's/^--- a\///p' $p | head -1)
tmp=$(mktemp -d)
trap 'rm -rf $tmp' EXIT
mkdir -p $tmp/$(dirname $file)
cp /repo/$file $tmp/$file
patch -s -p1 -d $tmp < $p
/verif/bin/gosymex check ${PROP:-$prop} --no-evidence --overlay /repo/$file=$tmp/$file "$@"
