//go:build verif

// Package zzverifrt holds the intrinsics that harnesses use to talk to the symbolic executor (gosymex),
// plus leaf models shared by all harnesses. It exists only in the go/packages overlay of a check run
// (virtual directory /repo/internal/zzverifrt); nothing of it is ever written under /repo.
// Functions without a body are engine intrinsics.
//
// Default leaf models and merge list (apply to every harness):
//verif:stub fmt.Errorf -> rt.Errorf
//verif:stub fmt.Sprintf -> rt.Sprintf
//verif:stub fmt.Sprint -> rt.Sprint
//verif:stub (crypto/x509/pkix.Name).String -> rt.StubNameString
//verif:stub net/url.Parse -> rt.StubURLParse
//verif:stub context.WithCancel -> rt.StubWithCancel
//verif:stub context.WithTimeout -> rt.StubWithTimeout
//verif:stub context.WithDeadline -> rt.StubWithDeadline
//verif:stub crypto/sha256.New -> rt.StubHashNew
//verif:stub crypto/sha256.Sum256 -> rt.DigestOf
//verif:stub crypto/sha512.New -> rt.StubHashNew
//verif:stub crypto/sha512.New384 -> rt.StubHashNew
//verif:stub crypto/sha1.New -> rt.StubHashNew
//verif:merge (time.Time).Before
//verif:merge (time.Time).After
//verif:merge (time.Time).Equal
//verif:merge (time.Time).IsZero
//verif:merge (time.Time).Compare
//verif:merge (*time.Time).sec
//verif:merge (*time.Time).nsec
//verif:merge (*time.Time).unixSec
//verif:merge (time.Time).Unix
//verif:merge (time.Time).UTC
//verif:merge (encoding/asn1.ObjectIdentifier).Equal
package zzverifrt

import (
	"context"
	"hash"
	"net/url"
	"crypto/x509/pkix"
	"encoding/asn1"
	"math/big"
	"time"
)

// ---- nondeterministic inputs
func Bool(name string) bool
func Int(name string) int
func Int64(name string) int64
func Uint64(name string) uint64
func Uint8(name string) uint8
func Float(name string) float64

// Choose is a shape fork: every value in [0,n) is explored on its own path.
func Choose(name string, n int) int

// Atom / AtomString: byte string with symbolic length and content abstracted to an equality label.
func Atom(name string) []byte
func AtomString(name string) string

// Bytes / String: array form, concrete length n, every byte symbolic.
func Bytes(name string, n int) []byte
func String(name string, n int) string

// Time: arbitrary wall-clock instant (no monotonic reading), nanosecond resolution.
func Time(name string) time.Time

// Big: abstract natural number behind *big.Int (64-bit).
func Big(name string) *big.Int
func BigEq(a, b *big.Int) bool
func BigLess(a, b *big.Int) bool
func BigVal(a *big.Int) uint64
func BigOf(v uint64) *big.Int
func BigSet(dst *big.Int, v uint64)

// BigOfBytes: the number big.Int.SetBytes yields for these bytes (abstractly: identified with the bytes).
func BigOfBytes(b []byte) *big.Int

// Havoc returns an arbitrary value of type T, materialised lazily field by field.
func Havoc[T any](name string) T {
	var z T
	havocHook(name)
	return z
}
func havocHook(name string)

// LazyMap returns a map over the key universe `keys` whose entries are decided lazily: gen(k) is called the first time the
// code under test can observe key k (a lookup of that key, or any range/len/lookup with a symbolic key) and says whether
// k is present and with which value. Keys outside the universe are absent.
func LazyMap[K comparable, V any](keys []K, gen func(K) (V, bool)) map[K]V {
	lazyMapHook()
	return nil
}
func lazyMapHook()

// NoSep assumes that the text s does not contain the one-byte separator sep (e.g. base64url output never contains '.').
func NoSep(s string, sep string)

// Resolved reports whether the dynamic type of a havoced interface value has been looked at (and thereby fixed) yet.
func Resolved(x any) bool

// HavocInto stores an arbitrary value of the pointee type through ptr (what a decoder leaves behind).
func HavocInto(ptr any, name string)

// ---- assumptions, assertions, coverage
func Assume(c bool)
func Assert(c bool, id string)

// AssertKnown is Assert, except that counterexamples satisfying knownCond are reported as the known finding
// `known` when (and only when) that id is listed as "known:" in /verif/known_findings.txt.
func AssertKnown(c bool, id string, known string, knownCond bool)
func Cover(label string)

// ---- fork-free boolean and value combinators
func And(a, b bool) bool
func Or(a, b bool) bool
func Not(a bool) bool
func Implies(a, b bool) bool
func Iff(a, b bool) bool
func IteInt(c bool, a, b int) int
func IteBool(c bool, a, b bool) bool
func IteTime(c bool, a, b time.Time) time.Time
// Same: identical dynamic type and identical value; for byte-slice typed values (ed25519 keys) identity of the value.
func Same(a, b any) bool
func BytesEq(a, b []byte) bool

// DigestOf: an idealised, injective 32-byte digest of a text (engine intrinsic): equal texts, equal digests; different
// texts, different digests. Stands for crypto/sha256.Sum256 and, through StubHash, for the streaming hashes.
func DigestOf(content []byte) [32]byte

// StubHash: hash.Hash whose state is the text written so far.
type StubHash struct{ acc []byte }

func (h *StubHash) Write(p []byte) (int, error) { h.acc = append(h.acc, p...); return len(p), nil }
func (h *StubHash) Sum(b []byte) []byte {
	d := DigestOf(h.acc)
	return append(b, d[:]...)
}
func (h *StubHash) Reset()         { h.acc = nil }
func (h *StubHash) Size() int      { return 32 }
func (h *StubHash) BlockSize() int { return 64 }
func StubHashNew() hash.Hash      { return &StubHash{} }
func StrEq(a, b string) bool

// ---- bounds, tiers, diagnostics
func Bound(name string, quick, thorough int) int
func Thorough() bool
func Note(msg string, args ...any)
func Fail(msg string)

// Seq returns 1, 2, 3, … per name on each path (for naming fresh symbols in stubs).
func Seq(name string) int

// Name builds "base#k" with k = Seq(base).
func Name(base string) string

// Tracking of footprints / goroutine state
func Goroutines() int // number of goroutines spawned and not finished

// Concrete reports whether a bool is concrete on this path (harness self-checks).
func IsConcrete(c bool) bool

// ---- errors

// OpaqueError stands for an error whose text is irrelevant; Wrapped keeps the %w operands so errors.Is/As work.
type OpaqueError struct {
	Tag     string
	Wrapped []error
}

func (e *OpaqueError) Error() string   { return "opaque:" + e.Tag }
func (e *OpaqueError) Unwrap() []error { return e.Wrapped }

// RuntimePanic is the value recover() yields for a run-time error raised by the executor.
type RuntimePanic struct{ Msg string }

func (e RuntimePanic) Error() string { return e.Msg }
func (e RuntimePanic) RuntimeError() {}

// EnvError is an arbitrary error coming from the environment (network, cache, caller-supplied objects).
type EnvError struct {
	Tag       string
	IsTimeout bool
}

func (e *EnvError) Error() string { return "env:" + e.Tag }
func (e *EnvError) Timeout() bool { return e.IsTimeout }

func NewEnvError(tag string) error { return &EnvError{Tag: tag, IsTimeout: Bool(Name(tag + ".timeout"))} }

// Errorf models fmt.Errorf: opaque text, %w operands kept.
func Errorf(format string, a ...any) error {
	e := &OpaqueError{Tag: format}
	ai := 0
	for i := 0; i < len(format); i++ {
		if format[i] != '%' {
			continue
		}
		i++
		if i >= len(format) {
			break
		}
		if format[i] == '%' {
			continue
		}
		for i < len(format) && (format[i] == '+' || format[i] == '-' || format[i] == '#' || format[i] == ' ' || format[i] == '0' || (format[i] >= '1' && format[i] <= '9') || format[i] == '.') {
			i++
		}
		if i >= len(format) {
			break
		}
		if ai < len(a) {
			arg := a[ai]
			if format[i] == 'w' {
				if er, ok := arg.(error); ok {
					e.Wrapped = append(e.Wrapped, er)
				}
			}
		}
		ai++
	}
	return e
}

// Sprintf models fmt.Sprintf: the result is a fresh opaque text.
func Sprintf(format string, a ...any) string {
	s := AtomString(Name("sprintf"))
	if hasLiteralText(format) {
		// whatever the operands render as, the literal text of the format is part of the result: code may rely on a
		// message built this way being non-empty (behaviour-preserving change B12: `if msg != ""`)
		Assume(len(s) > 0)
	}
	return s
}

// hasLiteralText: the format contains at least one character outside its verbs (formats are literals in the code under
// test and in the libraries executed).
func hasLiteralText(format string) bool {
	for i := 0; i < len(format); i++ {
		if format[i] != '%' {
			return true
		}
		i++
		if i < len(format) && format[i] == '%' {
			return true
		}
		for i < len(format) && (format[i] == '+' || format[i] == '-' || format[i] == '#' || format[i] == ' ' || format[i] == '0' || (format[i] >= '1' && format[i] <= '9') || format[i] == '.' || format[i] == '*' || format[i] == '[' || format[i] == ']') {
			i++
		}
	}
	return false
}

func Sprint(a ...any) string {
	return AtomString(Name("sprint"))
}

// Panics runs f and reports whether it panicked, and with which value.
func Panics(f func()) (val any, panicked bool) {
	defer func() {
		if r := recover(); r != nil {
			val, panicked = r, true
		}
	}()
	f()
	return nil, false
}

// StubNameString models (pkix.Name).String: some text (the code under test only prints it or, in a defective
// variant, compares it; an arbitrary text per call over-approximates both).
func StubNameString(n pkix.Name) string { return AtomString(Name("pkixname")) }

// StubOIDString models (asn1.ObjectIdentifier).String for error texts.
func StubOIDString(o asn1.ObjectIdentifier) string { return AtomString(Name("oidtext")) }

// StubURLParse models net/url.Parse: an error (and, as documented, a nil URL) or a URL every field of which is an
// arbitrary value. Harnesses that care about the URL bind their own model.
func StubURLParse(raw string) (*url.URL, error) {
	n := Name("url.parse")
	if Choose(n+".err", 2) == 1 {
		return nil, NewEnvError("url")
	}
	return Havoc[*url.URL](n), nil
}

// ---- derived contexts. context.WithCancel & co. are modelled by a small cancel context: it is done once its cancel
// function ran or its parent says so; a deadline is the environment's business (the derived context of WithTimeout /
// WithDeadline may additionally report "deadline exceeded" at any call, like EnvContext).
type envCancelCtx struct {
	parent    context.Context
	cancelled bool
	byFunc    bool // cancelled through its cancel function (as opposed to a deadline or the parent)
	timed     bool
	tag       string
	ch        chan struct{}
}

// ErrCanceled stands for context.Canceled / context.DeadlineExceeded (the package-level errors of context are not
// initialised in the executor)
func ErrCanceled() error { return &EnvError{Tag: "context canceled"} }

func (c *envCancelCtx) Deadline() (time.Time, bool) { return c.parent.Deadline() }
func (c *envCancelCtx) Done() <-chan struct{}       { return c.ch }
func (c *envCancelCtx) Value(key any) any           { return c.parent.Value(key) }
func (c *envCancelCtx) Err() error {
	if c.cancelled {
		return ErrCanceled()
	}
	if c.timed && Choose(Name(c.tag+".deadline.exceeded"), 2) == 1 {
		c.cancelled = true
		close(c.ch)
		return ErrCanceled()
	}
	return c.parent.Err()
}
func newCancelCtx(parent context.Context, timed bool) (context.Context, context.CancelFunc) {
	if parent == nil {
		panic("cannot create context from nil parent")
	}
	c := &envCancelCtx{parent: parent, timed: timed, tag: Name("ctx"), ch: make(chan struct{})}
	return c, func() {
		c.byFunc = true
		if !c.cancelled {
			c.cancelled = true
			close(c.ch)
		}
	}
}
// CancelledByCancelFunc reports whether ctx, or an ancestor of it created by the stubs above, has been cancelled through
// its cancel function - i.e. by the code under test itself, not by a deadline and not by the caller's context.
func CancelledByCancelFunc(ctx context.Context) bool {
	for {
		c, ok := ctx.(*envCancelCtx)
		if !ok {
			return false
		}
		if c.byFunc {
			return true
		}
		ctx = c.parent
	}
}

func StubWithCancel(parent context.Context) (context.Context, context.CancelFunc) {
	return newCancelCtx(parent, false)
}
func StubWithTimeout(parent context.Context, d time.Duration) (context.Context, context.CancelFunc) {
	return newCancelCtx(parent, true)
}
func StubWithDeadline(parent context.Context, t time.Time) (context.Context, context.CancelFunc) {
	return newCancelCtx(parent, true)
}

// EnvContext is a caller-supplied context in an arbitrary state: Err() answers nil or a cancellation error, independently
// on every call (a context may be cancelled at any moment); Done() is a channel the harness never closes.
type EnvContext struct{ Tag string }

func (c EnvContext) Deadline() (deadline time.Time, ok bool) { return time.Time{}, false }
func (c EnvContext) Done() <-chan struct{}                   { return nil }
func (c EnvContext) Value(key any) any                       { return nil }
func (c EnvContext) Err() error {
	if Choose(Name(c.Tag+".ctx.cancelled"), 2) == 1 {
		return NewEnvError("context canceled")
	}
	return nil
}
