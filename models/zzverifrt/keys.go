//go:build verif

package zzverifrt

import (
	"crypto"
	"crypto/ecdsa"
	"crypto/ed25519"
	"crypto/elliptic"
	"crypto/rsa"
	"math/big"
)

// StubCurve is an elliptic.Curve whose only observable property is its bit size (arbitrary int).
type StubCurve struct{ P *elliptic.CurveParams }

func (c StubCurve) Params() *elliptic.CurveParams                         { return c.P }
func (c StubCurve) IsOnCurve(x, y *big.Int) bool                          { return true }
func (c StubCurve) Add(x1, y1, x2, y2 *big.Int) (*big.Int, *big.Int)      { return x1, y1 }
func (c StubCurve) Double(x1, y1 *big.Int) (*big.Int, *big.Int)           { return x1, y1 }
func (c StubCurve) ScalarMult(x1, y1 *big.Int, k []byte) (*big.Int, *big.Int) { return x1, y1 }
func (c StubCurve) ScalarBaseMult(k []byte) (*big.Int, *big.Int)          { return nil, nil }

// Key kinds reported by NondetPublicKey.
const (
	KindNone = iota
	KindRSA
	KindEC
	KindEd25519
	KindOther
)

// NondetPublicKey returns an arbitrary public key as a certificate parser can yield it: *rsa.PublicKey with a
// modulus of arbitrary bit length, *ecdsa.PublicKey on a curve of arbitrary bit size, ed25519.PublicKey, or nil.
// bits is what the key's size is by the library's own definition: 8*Size() for RSA, Params().BitSize for EC.
func NondetPublicKey(name string) (key crypto.PublicKey, kind int, bits int) {
	switch Choose(name+".kind", 4) {
	case 0:
		n := Big(name + ".N")
		bl := int(BigVal(n) & 0xFFFF) // the abstraction of (*big.Int).BitLen used by the executor
		return &rsa.PublicKey{N: n, E: 65537}, KindRSA, ((bl + 7) / 8) << 3
	case 1:
		b := Int(name + ".curvebits")
		return &ecdsa.PublicKey{Curve: StubCurve{P: &elliptic.CurveParams{BitSize: b}}, X: Big(name + ".X"), Y: Big(name + ".Y")}, KindEC, b
	case 2:
		return ed25519.PublicKey(Atom(name + ".ed25519")), KindEd25519, 0
	}
	return nil, KindNone, 0
}

// AlgRow: the literal table of the signature specification. alg numbering: 1..6 = PS256, PS384, PS512, ES256, ES384, ES512.
// Returns 0 when (kind, bits) is not a row. Fork-free.
func AlgRow(kind int, bits int) int {
	r := 0
	r = IteInt(And(kind == KindRSA, bits == 2048), 1, r)
	r = IteInt(And(kind == KindRSA, bits == 3072), 2, r)
	r = IteInt(And(kind == KindRSA, bits == 4096), 3, r)
	r = IteInt(And(kind == KindEC, bits == 256), 4, r)
	r = IteInt(And(kind == KindEC, bits == 384), 5, r)
	r = IteInt(And(kind == KindEC, bits == 521), 6, r)
	return r
}

// HashRow: crypto.Hash number for algorithm 1..6 (SHA256=5, SHA384=6, SHA512=7), 0 otherwise. Fork-free.
func HashRow(alg int) int {
	r := 0
	r = IteInt(Or(alg == 1, alg == 4), 5, r)
	r = IteInt(Or(alg == 2, alg == 5), 6, r)
	r = IteInt(Or(alg == 3, alg == 6), 7, r)
	return r
}
