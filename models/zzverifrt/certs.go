//go:build verif

package zzverifrt

import (
	"crypto"
	"crypto/ecdsa"
	"crypto/rsa"
	"crypto/x509"
	"crypto/x509/pkix"
	"encoding/asn1"
	"time"
)

// Certificates are havoced lazily: rt.Havoc[*x509.Certificate](name) yields a certificate every field of which is an
// independent arbitrary value materialised when first read. The field constructors below narrow individual fields to
// what crypto/x509.ParseCertificate can produce (DESIGN.md 3.2); they apply to every harness.
//
//verif:havocfield .KeyUsage -> rt.HavocKeyUsage
//verif:havocfield .MaxPathLen -> rt.HavocMaxPathLen
//verif:havocfield .PublicKey -> rt.HavocPublicKey
//verif:havocfield .Extensions -> rt.HavocExtensions
//verif:havocfield .ExtKeyUsage -> rt.HavocEKU
//verif:havocfield .UnknownExtKeyUsage -> rt.HavocUnknownEKU
//verif:havocfield .SerialNumber -> rt.Big
//verif:havocfield .Number -> rt.Big

// HavocKeyUsage: any of the 2^9 values of the nine defined bits.
func HavocKeyUsage(name string) x509.KeyUsage {
	ku := Int(name)
	Assume(ku&^0x1FF == 0)
	return x509.KeyUsage(ku)
}

// HavocMaxPathLen: the parser yields -1 (absent) or a non-negative value.
func HavocMaxPathLen(name string) int {
	v := Int(name)
	Assume(v >= -1)
	return v
}

func HavocPublicKey(name string) any {
	k, _, _ := NondetPublicKey(name)
	return k
}

// ExtMax bounds the number of extensions of a havoced certificate / CRL (set by the harness before use).
var ExtMax = 3
var EKUMax = 3

// HavocExtensions: 0..ExtMax extensions with pairwise different OIDs 2.5.29.<arc>, the last arc symbolic
// (15 key usage, 37 extended key usage, 19 basic constraints, 31 CRL distribution points, 46 freshest CRL, …),
// symbolic criticality, opaque value.
func HavocExtensions(name string) []pkix.Extension {
	n := Choose(name+".n", ExtMax+1)
	var out []pkix.Extension
	var arcs []int
	for i := 0; i < n; i++ {
		q := name + string(rune('0'+i))
		arc := Int(q + ".arc")
		Assume(arc >= 0)
		for _, prev := range arcs {
			Assume(arc != prev)
		}
		arcs = append(arcs, arc)
		out = append(out, pkix.Extension{Id: asn1.ObjectIdentifier{2, 5, 29, arc}, Critical: Bool(q + ".critical"), Value: Atom(q + ".value")})
	}
	return out
}

// HavocEKU: 0..EKUMax arbitrary ints (a superset of the parser's enum 0..13).
func HavocEKU(name string) []x509.ExtKeyUsage {
	n := Choose(name+".n", EKUMax+1)
	var out []x509.ExtKeyUsage
	for i := 0; i < n; i++ {
		out = append(out, x509.ExtKeyUsage(Int(name+string(rune('0'+i)))))
	}
	return out
}

func HavocUnknownEKU(name string) []asn1.ObjectIdentifier {
	if Choose(name+".n", 2) == 1 {
		return []asn1.ObjectIdentifier{{1, 2, 3, 4}}
	}
	return nil
}

// ExtFlags: presence and criticality of the extension 2.5.29.<arc> among exts. Fork-free.
func ExtFlags(exts []pkix.Extension, arc int) (present, critical bool) {
	for i := len(exts) - 1; i >= 0; i-- {
		is := exts[i].Id.Equal(asn1.ObjectIdentifier{2, 5, 29, arc})
		critical = IteBool(is, exts[i].Critical, critical)
		present = Or(present, is)
	}
	return
}

// KeyInfo: kind and size of a public key by the libraries' own definitions (8*Size() for RSA, Params().BitSize for EC).
func KeyInfo(key crypto.PublicKey) (kind int, bits int) {
	switch k := key.(type) {
	case *rsa.PublicKey:
		bl := int(BigVal(k.N) & 0xFFFF)
		return KindRSA, ((bl + 7) / 8) << 3
	case *ecdsa.PublicKey:
		return KindEC, k.Curve.Params().BitSize
	case nil:
		return KindNone, 0
	}
	return KindOther, 0
}

// ---- the signature primitive: an uninterpreted predicate of (algorithm, message, signature, key)

type SigEvent struct {
	Algo      int
	Signed    []byte
	Sig       []byte
	Key       crypto.PublicKey
	AllowSHA1 bool
	Valid     bool
}

var SigLog []SigEvent

// StubCheckSignature models crypto/x509.checkSignature: an arbitrary but functionally consistent verdict
// (same arguments, same answer). Nothing else is known about it: an adversary may know other keys.
func StubCheckSignature(algo x509.SignatureAlgorithm, signed, signature []byte, publicKey crypto.PublicKey, allowSHA1 bool) error {
	v := Bool(Name("sig.valid"))
	for _, e := range SigLog {
		if Same(e.Key, publicKey) && e.AllowSHA1 == allowSHA1 {
			same := And(e.Algo == int(algo), And(BytesEq(e.Signed, signed), BytesEq(e.Sig, signature)))
			v = IteBool(same, e.Valid, v)
		}
	}
	SigLog = append(SigLog, SigEvent{int(algo), signed, signature, publicKey, allowSHA1, v})
	if v {
		return nil
	}
	return NewEnvError("signature")
}

// SigValid: was the primitive asked about exactly (signed, sig, key) and did it answer "valid"? Fork-free.
func SigValid(signed, sig []byte, key crypto.PublicKey) bool {
	r := false
	for _, e := range SigLog {
		if Same(e.Key, key) {
			r = Or(r, And(e.Valid, And(BytesEq(e.Signed, signed), BytesEq(e.Sig, sig))))
		}
	}
	return r
}

// OptTime: nil or an arbitrary instant.
func OptTime(name string) *time.Time {
	if Choose(name+".nil", 2) == 1 {
		return nil
	}
	t := TimeAnyLoc(name)
	return &t
}

var anyLocA, anyLocB time.Location

// TimeAnyLoc: an arbitrary instant in one of three locations (nil = UTC, A, B), for times that a caller or a decoder
// hands in: comparing such VALUES (==, struct or map-key equality) also compares the location pointers and is not a
// comparison of instants, which is what every rule of the properties is about (seeded change S44).
func TimeAnyLoc(name string) time.Time { return TimeInLocs(name, 3) }

// TimeInLocs: as TimeAnyLoc with k (2 or 3) locations to choose from; 2 suffice when every other time it meets is UTC.
func TimeInLocs(name string, k int) time.Time {
	t := Time(name)
	switch Choose(name+".loc", k) {
	case 1:
		return t.In(&anyLocA)
	case 2:
		return t.In(&anyLocB)
	}
	return t
}
