//go:build verif

// C13 — COSE side: the C13.* assertions of ../C07/cose_content.go
//verif:pkg signature/cose
//verif:include ../C07/cose_env.go
//verif:include ../C07/cose_content.go
//verif:harness H_C07_cose_content
package cose
