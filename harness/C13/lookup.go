//go:build verif

// C13 — looking an extended attribute up by key returns that attribute, or an error when no attribute has that text key.
//verif:pkg signature
//verif:harness H_C13_lookup
//verif:iface attr string int64 bool
package signature

import (
	rt "github.com/notaryproject/notation-core-go/internal/zzverifrt"
)

func H_C13_lookup() {
	n := rt.Choose("attrs", 1+rt.Bound("attributes_max", 3, 4))
	info := &SignerInfo{}
	var textKeys []string // "" marks a non-text key
	var isText []bool
	for i := 0; i < n; i++ {
		q := "attr" + string(rune('0'+i))
		var key any
		switch rt.Choose(q+".keykind", 2) {
		case 0:
			s := rt.AtomString(q + ".key")
			key, textKeys, isText = s, append(textKeys, s), append(isText, true)
		default:
			key, textKeys, isText = rt.Int64(q+".intkey"), append(textKeys, ""), append(isText, false)
		}
		info.SignedAttributes.ExtendedAttributes = append(info.SignedAttributes.ExtendedAttributes, Attribute{Key: key, Critical: rt.Bool(q + ".critical"), Value: rt.Havoc[any](q + ".value")})
	}
	want := rt.AtomString("wanted")
	got, err := info.ExtendedAttribute(want)
	// reference: index of the first attribute whose key is this text
	first := -1
	for i := n - 1; i >= 0; i-- {
		if isText[i] {
			first = rt.IteInt(rt.StrEq(textKeys[i], want), i, first)
		}
	}
	rt.Assert(rt.Iff(err == nil, first >= 0), "C13.lookup.iff.present")
	if err == nil {
		ks, ok := got.Key.(string)
		rt.Assert(ok && rt.StrEq(ks, want), "C13.lookup.key")
		for i, a := range info.SignedAttributes.ExtendedAttributes {
			rt.Assert(rt.Implies(first == i, rt.And(rt.Same(got.Value, a.Value), got.Critical == a.Critical)), "C13.lookup.that.attribute")
		}
	}
}
