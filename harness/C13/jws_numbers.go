//go:build verif

// C13 (JWS) — the content harness once more with the JSON number model switched on: a further header whose value is a
// JSON number is handed out as float64; "its value unchanged" needs that float64 to be the number in the signed text.
//verif:pkg signature/jws
//verif:include ../C07/jws_env.go
//verif:include ../C07/jws_content.go
//verif:harness H_C13_jws_numbers
package jws

func H_C13_jws_numbers() {
	numbersModel = true
	extrasMax = 1
	H_C07_jws_content()
}
