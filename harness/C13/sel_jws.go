//go:build verif

// C13 — JWS side: the C13.* assertions of ../C07/jws_content.go
//verif:pkg signature/jws
//verif:include ../C07/jws_env.go
//verif:include ../C07/jws_content.go
//verif:harness H_C07_jws_content
//verif:harness H_C07_jws_content_fold
package jws
