//go:build verif

// C02 — JWS verify side: the algorithm golang-jwt verifies under is the one the envelope reports, which is the leaf
// key's row (harness in ../C07/jws_verify.go; the case-variant harness is where the two could differ)
//verif:pkg signature/jws
//verif:include ../C07/jws_env.go
//verif:include ../C07/jws_content.go
//verif:include ../C07/jws_verify.go
//verif:harness H_C01_jws_verify
//verif:harness H_C01_jws_verify_fold
package jws
