//go:build verif

// C02 (a) — the algorithm tables: for every public-key dynamic type and every key size, every algorithm number and
// every (type,size) pair, the code returns the row of the literal six-row table written in rt.AlgRow/HashRow, or an error / 0.
//verif:pkg internal/algorithm
//verif:harness H_C02_extract
//verif:harness H_C02_tables
package algorithm

import (
	"crypto/x509"

	rt "github.com/notaryproject/notation-core-go/internal/zzverifrt"
)

func H_C02_extract() {
	key, kind, bits := rt.NondetPublicKey("leaf")
	cert := &x509.Certificate{PublicKey: key}
	ks, err := ExtractKeySpec(cert)
	row := rt.AlgRow(kind, bits)
	rt.Assert(rt.Iff(err == nil, row != 0), "C02.extract.iff")
	if err == nil {
		wantType := rt.IteInt(kind == rt.KindRSA, 1, 2)
		rt.Assert(rt.And(int(ks.Type) == wantType, ks.Size == bits), "C02.extract.spec")
		rt.Assert(int(ks.SignatureAlgorithm()) == row, "C02.extract.alg")
		rt.Assert(int(ks.SignatureAlgorithm().Hash()) == rt.HashRow(row), "C02.extract.hash")
	} else {
		rt.Assert(ks == KeySpec{}, "C02.extract.zero")
	}
}

func H_C02_tables() {
	// every int as algorithm number
	a := rt.Int("alg")
	rt.Assert(int(Algorithm(a).Hash()) == rt.HashRow(a), "C02.hash.table")
	// every (type, size) pair
	t, s := rt.Int("type"), rt.Int("size")
	kind := rt.IteInt(t == 1, rt.KindRSA, rt.IteInt(t == 2, rt.KindEC, rt.KindOther))
	rt.Assert(int(KeySpec{Type: KeyType(t), Size: s}.SignatureAlgorithm()) == rt.AlgRow(kind, s), "C02.alg.table")
	// constants have the numbering the table assumes
	rt.Assert(AlgorithmPS256 == 1 && AlgorithmPS384 == 2 && AlgorithmPS512 == 3 && AlgorithmES256 == 4 && AlgorithmES384 == 5 && AlgorithmES512 == 6, "C02.numbering")
	rt.Assert(KeyTypeRSA == 1 && KeyTypeEC == 2, "C02.keytypes")
}
