//go:build verif

// C02 (b, base layer) — whatever the format-specific envelope reports, base.Envelope.Verify/Content succeed only if the
// declared algorithm is the table row of the leaf certificate's key. The chain validation is summarised as an arbitrary
// verdict here (its exact behaviour is C03's subject).
//verif:pkg signature/internal/base
//verif:harness H_C02_base
//verif:stub github.com/notaryproject/notation-core-go/x509.ValidateCodeSigningCertChain -> sumChainAny
package base

import (
	"crypto/x509"
	"time"

	rt "github.com/notaryproject/notation-core-go/internal/zzverifrt"
	"github.com/notaryproject/notation-core-go/signature"
)

type fakeInner struct {
	content *signature.EnvelopeContent
	err     error
}

func (f *fakeInner) Sign(req *signature.SignRequest) ([]byte, error) { return nil, rt.NewEnvError("sign") }
func (f *fakeInner) Verify() (*signature.EnvelopeContent, error)      { return f.content, f.err }
func (f *fakeInner) Content() (*signature.EnvelopeContent, error)     { return f.content, f.err }

func sumChainAny(chain []*x509.Certificate, t *time.Time) error {
	if rt.Choose("chain.verdict", 2) == 1 {
		return rt.NewEnvError("chain")
	}
	return nil
}

func H_C02_base() {
	n := rt.Choose("chainlen", 3)
	chain := make([]*x509.Certificate, n)
	kind, bits := 0, 0
	for i := range chain {
		k, kd, b := rt.NondetPublicKey("cert" + string(rune('0'+i)))
		chain[i] = &x509.Certificate{PublicKey: k}
		if i == 0 {
			kind, bits = kd, b
		}
	}
	alg := rt.Int("declared.alg")
	c := &signature.EnvelopeContent{
		Payload: signature.Payload{ContentType: rt.AtomString("cty"), Content: rt.Atom("payload")},
		SignerInfo: signature.SignerInfo{
			Signature:          rt.Atom("sig"),
			SignatureAlgorithm: signature.Algorithm(alg),
			CertificateChain:   chain,
			SignedAttributes: signature.SignedAttributes{SigningScheme: signature.SigningScheme(rt.AtomString("scheme")),
				SigningTime: rt.Time("st"), Expiry: rt.Time("exp")},
		},
	}
	e := &Envelope{Envelope: &fakeInner{content: c}, Raw: rt.Atom("raw")}
	useContent := rt.Choose("op", 2) == 1
	var got *signature.EnvelopeContent
	var err error
	if useContent {
		got, err = e.Content()
	} else {
		got, err = e.Verify()
	}
	if err == nil {
		rt.Assert(got == c, "C02.base.same")
		rt.Assert(n > 0, "C02.base.chain")
		rt.Assert(rt.And(alg != 0, alg == rt.AlgRow(kind, bits)), "C02.base.row")
	}
}
