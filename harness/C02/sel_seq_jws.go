//go:build verif

// C02 — "a signer is accepted for signing only with ... the algorithm dictated by the leaf certificate's key" also on an
// envelope object that already holds a signature (a second Sign with another signer and other certificates):
// the sequence harness of ../C20/jws_seq.go, whose second attempt is checked with the full oracle of ../C16/jws_sign.go
//verif:pkg signature/jws
//verif:include ../C16/jws_sign_env.go
//verif:include ../C16/jws_sign.go
//verif:include ../C20/jws_seq.go
//verif:harness H_C20_jws_seq
package jws
