//go:build verif

// C02 (c) / C16 — a local signer is constructed only for a private key that belongs to the leaf certificate, and only
// for a key that is a row of the table. Public-key equality is an uninterpreted predicate (ghost-logged).
//verif:pkg signature
//verif:harness H_C02_localsigner
//verif:stub (*crypto/rsa.PublicKey).Equal -> stubRSAEqual
//verif:stub (*crypto/ecdsa.PublicKey).Equal -> stubECEqual
package signature

import (
	"crypto"
	"crypto/ecdsa"
	"crypto/ed25519"
	"crypto/rsa"
	"crypto/x509"

	rt "github.com/notaryproject/notation-core-go/internal/zzverifrt"
)

type eqEvent struct {
	recv any
	arg  crypto.PublicKey
	res  bool
}

var eqLog []eqEvent

func stubRSAEqual(pub *rsa.PublicKey, x crypto.PublicKey) bool {
	r := rt.Bool(rt.Name("rsa.equal"))
	eqLog = append(eqLog, eqEvent{pub, x, r})
	return r
}
func stubECEqual(pub *ecdsa.PublicKey, x crypto.PublicKey) bool {
	r := rt.Bool(rt.Name("ec.equal"))
	eqLog = append(eqLog, eqEvent{pub, x, r})
	return r
}

func H_C02_localsigner() {
	n := rt.Choose("ncerts", 3)
	certs := make([]*x509.Certificate, n)
	kind, bits := 0, 0
	for i := range certs {
		k, kd, b := rt.NondetPublicKey("cert" + string(rune('0'+i)))
		certs[i] = &x509.Certificate{PublicKey: k}
		if i == 0 {
			kind, bits = kd, b
		}
	}
	var priv crypto.PrivateKey
	var privPub any
	switch rt.Choose("priv.kind", 4) {
	case 0:
		k := &rsa.PrivateKey{PublicKey: rsa.PublicKey{N: rt.Big("priv.N"), E: 65537}}
		priv, privPub = k, &k.PublicKey
	case 1:
		k := &ecdsa.PrivateKey{PublicKey: ecdsa.PublicKey{Curve: rt.StubCurve{}, X: rt.Big("priv.X")}}
		priv, privPub = k, &k.PublicKey
	case 2:
		priv = ed25519.PrivateKey(rt.Atom("priv.ed"))
	default:
		priv = nil
	}
	s, err := NewLocalSigner(certs, priv)
	if err != nil {
		rt.Assert(s == nil, "C02.signer.nil.on.error")
		return
	}
	rt.Assert(n > 0, "C02.signer.certs")
	row := rt.AlgRow(kind, bits)
	rt.Assert(row != 0, "C02.signer.row")
	// the key-pair predicate was evaluated on (this private key's public half, the leaf's public key) and held
	held := false
	for _, e := range eqLog {
		if e.recv == privPub && privPub != nil && e.arg == certs[0].PublicKey {
			held = rt.Or(held, e.res)
		}
	}
	rt.Assert(held, "C02.signer.keypair")
	ks, kerr := s.KeySpec()
	rt.Assert(kerr == nil && int(ks.SignatureAlgorithm()) == row, "C02.signer.keyspec")
	cc, cerr := s.CertificateChain()
	rt.Assert(cerr == nil && len(cc) == n && cc[0] == certs[0], "C02.signer.chain")
	rt.Assert(s.PrivateKey() == priv, "C02.signer.priv")
}
