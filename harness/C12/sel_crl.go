//go:build verif

// C12 — the documented shape of a CRL result (one OK entry per distribution point, or a single Revoked / Unknown entry;
// OK never next to a Revoked entry) is asserted where the real code builds it: the C05.L3 harness
//verif:pkg revocation/internal/crl
//verif:include ../C05/points.go
//verif:harness H_C05_points
//verif:harness H_C05_edge
package crl
