//go:build verif

// C12 — runs the orchestration harness of ../C11/orch.go with the C12 assertions as the subject.
//verif:pkg revocation
//verif:include ../C11/orch.go
//verif:harness H_C12_orch
//verif:harness H_C12_orch_long thorough-only
package revocation
