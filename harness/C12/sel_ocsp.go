//go:build verif

// C12 — the documented shape of an OCSP result (one decisive entry, or one Unknown entry per responder) is asserted where
// the real code builds it: the C04.L2 harness
//verif:pkg revocation/internal/ocsp
//verif:include ../C04/common_env.go
//verif:include ../C04/l2_servers.go
//verif:harness H_C04_servers
//verif:harness H_C04_noserver
package ocsp
