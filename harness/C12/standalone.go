//go:build verif

// C12/C11/C17 — the standalone OCSP entry point ocsp.CheckStatus: one result per certificate in chain order, root
// NonRevokable, invalid or empty chain => InvalidChainError and no results, every per-certificate check is the OCSP check
// of (chain[i], chain[i+1]); the CRL package is never entered; a panic in a per-certificate check must not kill the process.
//verif:pkg revocation/ocsp
//verif:harness H_C12_standalone
//verif:summary github.com/notaryproject/notation-core-go/revocation/internal/ocsp.CertCheckStatus -> sumOCSPs
//verif:summary github.com/notaryproject/notation-core-go/revocation/internal/x509util.ValidateChain -> sumChains
//verif:stub github.com/notaryproject/notation-core-go/revocation/internal/crl.CertCheckStatus -> forbiddenCRL
package ocsp

import (
	"context"
	"crypto/x509"
	"net/http"
	"time"

	rt "github.com/notaryproject/notation-core-go/internal/zzverifrt"
	"github.com/notaryproject/notation-core-go/revocation/internal/crl"
	"github.com/notaryproject/notation-core-go/revocation/internal/ocsp"
	"github.com/notaryproject/notation-core-go/revocation/purpose"
	"github.com/notaryproject/notation-core-go/revocation/result"
)

const maxChainS = 6

var (
	sIdx       = map[*x509.Certificate]int{}
	sChain     []*x509.Certificate
	sCalled    [maxChainS]int
	sIssuer    [maxChainS]int
	sRes       [maxChainS]*result.CertRevocationResult
	sOptsOK    [maxChainS]bool
	sPanicked  [maxChainS]bool
	sWithPanic bool
	sChainErr  error
	sChainOK   bool
	sChainN    int
	sPurpose   purpose.Purpose
	sClient    *http.Client
	sST        time.Time
	sCRL       bool
)

func dg(i int) string { return string(rune('0' + i)) }

func forbiddenCRL(ctx context.Context, cert, issuer *x509.Certificate, opts crl.CertCheckStatusOptions) *result.CertRevocationResult {
	sCRL = true
	return nil
}

func sumChains(chain []*x509.Certificate, p purpose.Purpose) error {
	sChainN++
	sChainOK = len(chain) == len(sChain) && (len(chain) == 0 || chain[0] == sChain[0]) && p == sPurpose
	if rt.Choose("chain.verdict", 2) == 1 {
		sChainErr = result.InvalidChainError{Err: rt.NewEnvError("chain")}
	}
	return sChainErr
}

func sumOCSPs(ctx context.Context, cert, issuer *x509.Certificate, opts ocsp.CertCheckStatusOptions) *result.CertRevocationResult {
	i := sIdx[cert]
	sCalled[i]++
	sIssuer[i] = sIdx[issuer]
	sOptsOK[i] = opts.HTTPClient == sClient && opts.SigningTime.Equal(sST)
	if sWithPanic && rt.Choose("ocsp.panic."+dg(i), 2) == 1 {
		sPanicked[i] = true
		panic("boom-" + dg(i))
	}
	v := rt.Int("verdict." + dg(i))
	r := &result.CertRevocationResult{Result: result.Result(v), RevocationMethod: result.RevocationMethodOCSP}
	if len(cert.OCSPServer) == 0 {
		rt.Assume(v == int(result.ResultNonRevokable))
		r.ServerResults = []*result.ServerResult{{Result: result.ResultNonRevokable, RevocationMethod: result.RevocationMethodOCSP}}
	} else {
		rt.Assume(rt.Or(v == int(result.ResultUnknown), rt.Or(v == int(result.ResultOK), v == int(result.ResultRevoked))))
		r.ServerResults = []*result.ServerResult{{Result: result.Result(v), Server: cert.OCSPServer[0], RevocationMethod: result.RevocationMethodOCSP}}
	}
	sRes[i] = r
	return r
}

func runStandalone() (n int, res []*result.CertRevocationResult, err error, pval any, panicked bool) {
	n = rt.Choose("n", 1+rt.Bound("chain_len_max", 3, 4))
	sChain = make([]*x509.Certificate, n)
	for i := range sChain {
		c := &x509.Certificate{}
		if rt.Choose("hasOCSP."+dg(i), 2) == 1 {
			c.OCSPServer = []string{rt.AtomString("ocsp." + dg(i))}
		}
		if rt.Choose("hasDP."+dg(i), 2) == 1 {
			c.CRLDistributionPoints = []string{rt.AtomString("dp." + dg(i))}
		}
		sChain[i] = c
		sIdx[c] = i
	}
	sPurpose, sClient, sST = purpose.Purpose(rt.Choose("purpose", 2)), &http.Client{}, rt.Time("signingTime")
	pval, panicked = rt.Panics(func() {
		res, err = CheckStatus(Options{CertChain: sChain, CertChainPurpose: sPurpose, SigningTime: sST, HTTPClient: sClient})
	})
	return
}

func H_C12_standalone() {
	n, res, err, _, panicked := runStandalone()
	rt.Assert(!panicked, "C12.s.nopanic")
	rt.Assert(!sCRL, "C11.s.never.consults.crl")
	if panicked {
		return
	}
	if n == 0 {
		_, isChainErr := err.(result.InvalidChainError)
		rt.Assert(isChainErr && res == nil && sChainN == 0, "C12.s.empty.chain")
		return
	}
	rt.Assert(sChainN == 1 && sChainOK, "C12.s.chain.validated.for.purpose")
	if sChainErr != nil {
		_, isChainErr := err.(result.InvalidChainError)
		rt.Assert(isChainErr && res == nil, "C12.s.invalid.chain")
		return
	}
	rt.Assert(err == nil && len(res) == n, "C12.s.one.result.per.certificate")
	if len(res) != n {
		return
	}
	for i := 0; i < n; i++ {
		r := res[i]
		rt.Assert(r != nil, "C12.s.nonnil")
		if r == nil {
			continue
		}
		if i == n-1 {
			rt.Assert(r.Result == result.ResultNonRevokable && sCalled[i] == 0 && len(r.ServerResults) == 1 && r.ServerResults[0].Result == result.ResultNonRevokable && r.ServerResults[0].Server == "", "C12.s.root")
			continue
		}
		rt.Assert(sCalled[i] == 1 && sIssuer[i] == i+1 && sOptsOK[i], "C12.s.check.of.cert.and.its.issuer")
		rt.Assert(r == sRes[i], "C12.s.positional")
	}
}

// C17 (standalone): a panic raised inside a per-certificate check resurfaces on the caller's goroutine
// (entry registered by ../C17/sel_standalone.go)
func H_C17_standalone() {
	sWithPanic = true
	_, res, _, pval, panicked := runStandalone()
	any := false
	for i := 0; i < maxChainS; i++ {
		any = any || sPanicked[i]
	}
	rt.Assert(panicked == any, "C17.s.panic.resurfaces.iff.raised")
	rt.Assert(rt.Goroutines() == 0, "C17.s.all.goroutines.finished")
	if panicked {
		_, isStr := pval.(string)
		rt.Assert(isStr && res == nil, "C17.s.panic.value")
	}
}
