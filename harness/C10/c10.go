//go:build verif

// C10 — CRL entries: permanent, hold/remove, invalidity date and delta are honoured.
// The real checkRevocation / parseEntryExtensions (incl. the range-over-func iterator) run on entry lists whose
// every scalar is symbolic; the reference interpretation of DESIGN.md appendix A.2 is evaluated fork-free.
//verif:pkg revocation/internal/crl
//verif:harness H_C10_entries
//verif:harness H_C10_entries_long thorough-only
//verif:stub encoding/asn1.UnmarshalWithParams -> stubInvalidityDate
package crl

import (
	"crypto/x509"
	"crypto/x509/pkix"
	"encoding/asn1"
	"time"

	rt "github.com/notaryproject/notation-core-go/internal/zzverifrt"
	"github.com/notaryproject/notation-core-go/revocation/crl"
	"github.com/notaryproject/notation-core-go/revocation/result"
)

// extSpec is the ghost description of one entry extension: what its OID is and what the ASN.1 leaf does with its value.
type extSpec struct {
	isInv    bool      // OID == id-ce-invalidityDate (2.5.29.24)
	critical bool
	kind     int       // 0: parses cleanly, 1: parse error, other: parses with trailing data
	inv      time.Time // the parsed instant
}

var extTable []extSpec

type entSpec struct {
	e    *x509.RevocationListEntry
	exts []int
}

func mkEntries(p string, n int, maxExt int, all *[]entSpec) []x509.RevocationListEntry {
	es := make([]x509.RevocationListEntry, n)
	for i := 0; i < n; i++ {
		q := p + string(rune('0'+i))
		es[i].SerialNumber = rt.Big(q + ".serial")
		es[i].ReasonCode = rt.Int(q + ".reason") // any int, not only 0..10
		es[i].RevocationTime = rt.Time(q + ".rtime")
		ne := rt.Choose(q+".next", maxExt+1)
		var idx []int
		for j := 0; j < ne; j++ {
			r := q + ".x" + string(rune('0'+j))
			sp := extSpec{critical: rt.Bool(r + ".crit")}
			arc := rt.Int(r + ".arc") // last arc of the OID 2.5.29.<arc>: 24 is the invalidity date, anything else is "other"
			sp.isInv = arc == 24
			sp.kind = rt.Int(r + ".kind")
			sp.inv = rt.Time(r + ".inv")
			ext := pkix.Extension{Id: asn1.ObjectIdentifier{2, 5, 29, arc}, Critical: sp.critical, Value: []byte{byte(len(extTable))}}
			idx = append(idx, len(extTable))
			extTable = append(extTable, sp)
			es[i].Extensions = append(es[i].Extensions, ext)
		}
		*all = append(*all, entSpec{e: &es[i], exts: idx})
	}
	return es
}

// stubInvalidityDate models asn1.UnmarshalWithParams(value, &time, "generalized"): any of {clean parse with an
// arbitrary instant, error, parse with trailing data}; deterministic in the extension it is applied to.
func stubInvalidityDate(b []byte, val any, params string) ([]byte, error) {
	sp := extTable[int(b[0])]
	if sp.kind == 1 {
		return nil, rt.NewEnvError("asn1")
	}
	*(val.(*time.Time)) = sp.inv
	if sp.kind != 0 {
		return []byte{0}, nil
	}
	return nil, nil
}

// up to 2 entries (base + delta together) with up to 2 extensions each
func H_C10_entries() { entriesHarness(rt.Bound("entries_total_max", 2, 2), rt.Bound("extensions_per_entry_max", 2, 2)) }

// thorough tier: up to 3 entries with at most 1 extension each (3 entries x 2 extensions is ~6*10^5 paths of ~50 ms:
// measured, not registered)
func H_C10_entries_long() {
	entriesHarness(rt.Bound("long_entries_total_max", 3, 3), rt.Bound("long_extensions_per_entry_max", 1, 1))
}

func entriesHarness(total, maxExt int) {
	cert := &x509.Certificate{SerialNumber: rt.Big("cert.serial")}
	var all []entSpec
	nb := rt.Choose("nb", total+1)
	b := &crl.Bundle{BaseCRL: &x509.RevocationList{RevokedCertificateEntries: mkEntries("b", nb, maxExt, &all)}}
	if rt.Choose("delta", 2) == 1 {
		nd := rt.Choose("nd", total-nb+1)
		b.DeltaCRL = &x509.RevocationList{RevokedCertificateEntries: mkEntries("d", nd, maxExt, &all)}
	}
	st := rt.TimeInLocs("signing", 2)
	url := rt.AtomString("url")

	res, err := checkRevocation(cert, b, st, url)

	// ---- reference interpretation (appendix A.2), fork-free
	anyBad, perm, someHold, multiInv := false, false, false, false
	type tmp struct {
		counting, hold bool
		rt             time.Time
	}
	var temps []tmp
	for _, en := range all {
		match := rt.BigEq(en.e.SerialNumber, cert.SerialNumber)
		bad, invOK, multi := false, false, false
		inv := time.Time{}
		for k, xi := range en.exts {
			sp := extTable[xi]
			bad = rt.Or(bad, rt.Or(rt.And(sp.isInv, sp.kind != 0), rt.And(rt.Not(sp.isInv), sp.critical)))
			if k == 0 {
				invOK = rt.And(sp.isInv, sp.kind == 0)
				inv = sp.inv
			} else {
				multi = rt.Or(multi, rt.And(invOK, sp.isInv))
				invOK = rt.Or(invOK, rt.And(sp.isInv, sp.kind == 0))
				inv = rt.IteTime(sp.isInv, sp.inv, inv)
			}
		}
		multiInv = rt.Or(multiInv, rt.And(match, multi))
		exempt := false
		if len(en.exts) > 0 {
			exempt = rt.And(invOK, rt.And(rt.And(rt.Not(st.IsZero()), rt.Not(inv.IsZero())), st.Before(inv)))
		}
		anyBad = rt.Or(anyBad, rt.And(match, bad))
		counting := rt.And(match, rt.And(rt.Not(bad), rt.Not(exempt)))
		isHold := en.e.ReasonCode == 6
		isRem := en.e.ReasonCode == 8
		perm = rt.Or(perm, rt.And(counting, rt.Not(rt.Or(isHold, isRem))))
		someHold = rt.Or(someHold, rt.And(counting, isHold))
		temps = append(temps, tmp{counting: rt.And(counting, rt.Or(isHold, isRem)), hold: isHold, rt: en.e.RevocationTime})
	}
	anyTemp, allLatestHold, allLatestRem := false, true, true
	for i, t := range temps {
		latest := t.counting
		for j, u := range temps {
			if i != j {
				latest = rt.And(latest, rt.Not(rt.And(u.counting, t.rt.Before(u.rt))))
			}
		}
		anyTemp = rt.Or(anyTemp, t.counting)
		allLatestHold = rt.And(allLatestHold, rt.Or(rt.Not(latest), t.hold))
		allLatestRem = rt.And(allLatestRem, rt.Or(rt.Not(latest), rt.Not(t.hold)))
	}
	mustRevoked := rt.And(rt.Not(anyBad), rt.Or(perm, rt.And(anyTemp, allLatestHold)))
	mustOK := rt.And(rt.Not(anyBad), rt.And(rt.Not(perm), rt.Or(rt.Not(anyTemp), allLatestRem)))
	isOK := err == nil && res.Result == result.ResultOK
	isRev := err == nil && res.Result == result.ResultRevoked
	// an entry with more than one invalidity-date extension is an open case (the property does not say which date governs)
	rt.Assert(rt.Or(multiInv, rt.Implies(mustOK, isOK)), "C10.ok")
	rt.Assert(rt.Or(multiInv, rt.Implies(mustRevoked, isRev)), "C10.revoked")
	rt.Assert(rt.Or(multiInv, rt.Implies(anyBad, rt.Or(err != nil, rt.And(isRev, rt.Or(perm, someHold))))), "C10.bad")
	if err == nil {
		rt.Assert(res != nil, "C10.nonnil")
		rt.Assert(rt.And(rt.StrEq(res.Server, url), res.RevocationMethod == result.RevocationMethodCRL), "C10.shape")
	}
}
