//go:build verif

// C20 — purity of Verify()/Content() on a parsed COSE object: ../C07/cose_verify.go after a prior call
//verif:pkg signature/cose
//verif:include ../C07/cose_env.go
//verif:include ../C07/cose_content.go
//verif:include ../C07/cose_verify.go
//verif:harness H_C01_cose_verify_after
package cose
