//go:build verif

// C20 (COSE) — one step of the object state machine from an ARBITRARY state satisfying the invariant
// I = "Raw is empty, or the inner message is the one Raw encodes": a fresh object, or an object holding a conforming
// previous message with its raw bytes. Operation: Sign with a request that may fail late (the signer's chain is not valid
// at the signing time, or the final encoding fails) - the real base.Envelope.Sign, cose envelope and go-cose glue run.
// Afterwards Content and Verify are observed twice: a failed Sign must leave the previous content (or "no signature"),
// never the failed request's; a successful one shows the request's content with Raw = the bytes returned; reading is pure.
//verif:pkg signature/cose
//verif:include ../C16/cose_sign_env.go
//verif:include ../C16/cose_sign.go
//verif:include ../C07/cose_content.go
//verif:harness H_C20_cose_step
package cose

import (
	rt "github.com/notaryproject/notation-core-go/internal/zzverifrt"
	"github.com/notaryproject/notation-core-go/signature"
	"github.com/notaryproject/notation-core-go/signature/internal/base"
)

func H_C20_cose_step() {
	// the request: attributes and signer as in the sign harness, environment may fail late
	focus = 3
	req := buildRequest()
	// the prior state
	var e *base.Envelope
	prior := rt.Choose("prior.state", 2)
	var oldPayload, oldRaw []byte
	if prior == 0 {
		e = NewEnvelope().(*base.Envelope)
	} else {
		focusHeaders, simpleUnprotected, plainPrior = false, true, true
		old := buildMessage(false) // a conforming message (symbolic values) with an arbitrary unprotected bucket
		rt.Assume(len(old.Headers.RawProtected) > 0)
		oldPayload, oldRaw = old.Payload, rt.Atom("old.raw")
		rt.Assume(len(oldRaw) > 0)
		e = &base.Envelope{Envelope: &envelope{base: old}, Raw: oldRaw}
	}
	out, err := e.Sign(req)
	c1, e1 := e.Content()
	c2, e2 := e.Content()
	rt.Assert((e1 == nil) == (e2 == nil), "C20.cose.content.pure")
	if c1 != nil && c2 != nil {
		rt.Assert(rt.BytesEq(c1.Payload.Content, c2.Payload.Content) && c1.Payload.ContentType == c2.Payload.ContentType, "C20.cose.content.repeatable")
	}
	if err != nil {
		rt.Assert(out == nil, "C20.cose.no.bytes.on.error")
		if prior == 0 {
			_, notFound := e1.(*signature.SignatureNotFoundError)
			rt.Assert(c1 == nil && notFound, "C20.cose.fresh.object.stays.empty")
		} else {
			// the object shows its previous state or no signature
			rt.Assert(rt.Same(e.Raw, oldRaw) || len(e.Raw) == 0, "C20.cose.previous.state.or.none")
			if len(e.Raw) == 0 {
				_, notFound := e1.(*signature.SignatureNotFoundError)
				rt.Assert(c1 == nil && notFound, "C20.cose.no.signature.reported")
			}
			if c1 != nil {
				// what the object shows is its previous content, never the failed request's
				rt.Assert(rt.BytesEq(c1.Payload.Content, oldPayload), "C20.cose.failed.sign.does.not.become.content")
			}
		}
		return
	}
	rt.Assert(rt.Same(e.Raw, out) && len(out) > 0, "C20.cose.raw.is.what.sign.returned")
	rt.Assert(e1 == nil && c1 != nil, "C20.cose.content.after.successful.sign")
	if c1 != nil {
		rt.Assert(rt.BytesEq(c1.Payload.Content, req.Payload.Content), "C20.cose.content.is.the.requests")
	}
}
