//go:build verif

// C20 — "verification and content extraction are pure" on a PARSED object (valid or tampered): Verify() after a prior
// Content() or Verify() on the same object demands and returns what it does on a fresh one (../C07/jws_verify.go)
//verif:pkg signature/jws
//verif:include ../C07/jws_env.go
//verif:include ../C07/jws_content.go
//verif:include ../C07/jws_verify.go
//verif:harness H_C01_jws_verify_after
package jws
