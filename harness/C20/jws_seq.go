//go:build verif

// C20 (JWS) — two signing attempts on ONE envelope object with the real base / jws envelope / golang-jwt code: the first
// succeeds (establishing "Raw encodes the inner message" by the real code), the second may fail late (chain not valid at
// the signing time, final encoding fails). After a failed second attempt the object must show the first request's content
// or no signature - never the failed request's; after a successful one, the second request's. Reading is repeatable.
//verif:pkg signature/jws
//verif:include ../C16/jws_sign_env.go
//verif:include ../C16/jws_sign.go
//verif:harness H_C20_jws_seq
package jws

import (
	rt "github.com/notaryproject/notation-core-go/internal/zzverifrt"
	"github.com/notaryproject/notation-core-go/signature"
	"github.com/notaryproject/notation-core-go/signature/internal/base"
)

func H_C20_jws_seq() {
	e := NewEnvelope().(*base.Envelope)
	// an object that was never signed reports that no signature is present
	_, e0 := e.Content()
	_, notFound0 := e0.(*signature.SignatureNotFoundError)
	rt.Assert(notFound0, "C20.jws.new.object.has.no.signature")
	// first attempt: a plain request that succeeds
	focusS = 4
	req1 := buildRequestS()
	out1, err1 := signAndCheckJWS(e, req1, true)
	if err1 != nil {
		return
	}
	c1, cerr1 := e.Content()
	if cerr1 != nil || c1 == nil {
		rt.Assert(false, "C20.jws.content.after.first.sign")
		return
	}
	firstPayload := c1.Payload.Content
	rt.Assert(rt.Same(e.Raw, out1), "C20.jws.raw.after.first.sign")
	// second attempt on the same object: late failures possible
	newRequest()
	focusS = 3
	thePayloadBytes = nil
	req2 := buildRequestS()
	// everything a signing attempt must satisfy (C16 rejection of invalid requests - in particular a signer whose leaf key
	// does not dictate the declared algorithm -, C08 content = request, C15.L3) also on an object that holds a signature
	out2, err2 := signAndCheckJWS(e, req2, false)
	a, ea := e.Content()
	b, eb := e.Content()
	rt.Assert((ea == nil) == (eb == nil), "C20.jws.content.pure")
	if a != nil && b != nil {
		rt.Assert(rt.BytesEq(a.Payload.Content, b.Payload.Content), "C20.jws.content.repeatable")
	}
	if err2 != nil {
		rt.Assert(out2 == nil, "C20.jws.no.bytes.on.error")
		rt.Assert(rt.Same(e.Raw, out1) || len(e.Raw) == 0, "C20.jws.previous.state.or.none")
		if len(e.Raw) == 0 {
			_, nf := ea.(*signature.SignatureNotFoundError)
			rt.Assert(a == nil && nf, "C20.jws.no.signature.reported")
		} else if a != nil {
			rt.Assert(rt.BytesEq(a.Payload.Content, firstPayload), "C20.jws.failed.sign.does.not.become.content")
		}
		return
	}
	rt.Assert(rt.Same(e.Raw, out2) && len(out2) > 0, "C20.jws.raw.is.what.sign.returned")
	rt.Assert(ea == nil && a != nil, "C20.jws.content.after.successful.sign")
	if a != nil {
		rt.Assert(rt.BytesEq(a.Payload.Content, claimsReencoded), "C20.jws.content.is.the.second.requests")
	}
}
