//go:build verif

// Sign-side environment for JWS (C08, C15.L3, C16, C20): JSON and base64 are an abstract paired codec (DESIGN.md
// appendix D). Marshal records the Go value it was given and returns opaque bytes; Unmarshal of those bytes maps the
// recorded value onto the target type the way encoding/json does for the kinds that occur (struct <-> object by the json
// tags of jwsProtectedHeader, text <-> time via RFC 3339, nil / wrong kinds as documented). The request payload is an
// arbitrary JSON document: an object, the literal null, or anything else; numbers in it may or may not survive float64.
//verif:pkg signature/jws
//verif:init github.com/golang-jwt/jwt/v4
//verif:zeroglobal encoding/base64.RawURLEncoding
//verif:zeroglobal encoding/base64.URLEncoding
//verif:zeroglobal crypto/rand.Reader
//verif:stub (*encoding/base64.Encoding).EncodeToString -> stubB64Enc
//verif:stub (*encoding/base64.Encoding).DecodeString -> stubB64Dec
//verif:stub encoding/json.Marshal -> stubJSONMarshal
//verif:stub encoding/json.Unmarshal -> stubJSONUnmarshalS
//verif:stub (*encoding/json.Decoder).UseNumber -> stubUseNumber
//verif:stub (*encoding/json.Decoder).Decode -> stubDecodeS
//verif:stub (*encoding/json.Decoder).Token -> stubTokenS
//verif:stub (*encoding/json.Decoder).More -> stubMoreS
//verif:stub (*encoding/json.Decoder).Buffered -> stubBufferedS
//verif:stub (*encoding/json.Decoder).InputOffset -> stubInputOffsetS
//verif:stub strings.EqualFold -> stubEqualFoldS
//verif:stub (time.Time).Zone -> stubZoneS
//verif:stub unicode/utf8.ValidString -> stubValidStringS
//verif:stub (time.Time).UTC -> stubUTCS
//verif:stub (crypto.Hash).Available -> stubHashAvail
//verif:stub (crypto.Hash).New -> stubHashNewS
//verif:stub crypto/rsa.SignPSS -> stubSignPSS
//verif:stub crypto/x509.ParseCertificate -> stubParseCertS
//verif:summary github.com/notaryproject/notation-core-go/x509.ValidateCodeSigningCertChain -> sumChainS
//verif:summary github.com/notaryproject/notation-core-go/internal/timestamp.Timestamp -> sumTimestampS
//verif:iface attr string int64 bool
//verif:iface .Value int64 bool string
//verif:iface timestamper nil github.com/notaryproject/notation-core-go/signature/jws.envTimestamperS
package jws

import (
	"context"
	"crypto"
	"crypto/rsa"
	"crypto/x509"
	"encoding/base64"
	"encoding/json"
	"hash"
	"io"
	"time"

	"github.com/golang-jwt/jwt/v4"
	"github.com/notaryproject/tspclient-go"

	rt "github.com/notaryproject/notation-core-go/internal/zzverifrt"
	"github.com/notaryproject/notation-core-go/signature"
)

// ---- base64: an injective pair
type b64Pair struct {
	raw  []byte
	text string
}

var b64Pairs []b64Pair

func stubB64Enc(e *base64.Encoding, b []byte) string {
	for _, p := range b64Pairs {
		if rt.Same(p.raw, b) {
			return p.text
		}
	}
	t := rt.AtomString(rt.Name("b64.text"))
	rt.NoSep(t, ".") // the base64url alphabet has no '.'
	rt.Assume(rt.Iff(len(t) == 0, len(b) == 0))
	b64Pairs = append(b64Pairs, b64Pair{b, t})
	return t
}
func stubB64Dec(e *base64.Encoding, s string) ([]byte, error) {
	for _, p := range b64Pairs {
		if rt.Same(p.text, s) {
			return p.raw, nil
		}
	}
	rt.Fail("base64 decoding of a text the encoder did not produce (sign side)")
	return nil, nil
}

// ---- JSON: Marshal records, Unmarshal maps the recorded value onto the target
type jsonRec struct {
	raw []byte
	v   any
}

var jsonRecs []jsonRec
var finalFails bool
var finalCallsS int
var finalBytes []byte
var lateFaultsS, wellBehavedS bool

type timeText struct {
	text string
	t    time.Time
}

var timeTexts []timeText


// ---- texts. JSON and CBOR text strings are Unicode: a Go string that is not valid UTF-8 is written by encoding/json
// with U+FFFD in place of the offending bytes and by the CBOR encoder as it is - which the CBOR decoder then refuses.
// Whether a text atom is valid UTF-8 is an arbitrary fact about it (memoised); concrete texts of the harness are ASCII.
type utf8RecS struct {
	s     string
	valid bool
}

var utf8LogS []utf8RecS

func stubValidStringS(s string) bool {
	for _, r := range utf8LogS {
		if rt.Same(r.s, s) {
			return r.valid
		}
	}
	v := true
	if !rt.IsConcrete(s == "") { // an atom (comparisons with a concrete text are symbolic)
		v = rt.Bool(rt.Name("text.is.valid.utf8"))
		rt.Assume(rt.Implies(len(s) == 0, v)) // the empty text is valid
	}
	utf8LogS = append(utf8LogS, utf8RecS{s, v})
	return v
}

// ---- zones. time.Time.MarshalJSON writes RFC 3339: local clock reading + zone offset in whole MINUTES. A time whose
// location has an offset with a seconds part therefore reads back as another instant (off by offset % 60 seconds); a
// local year outside 0..9999 or a zone hour above 23 cannot be written at all (Marshal fails). With zonesModelS on, the
// request's signing time and expiry each carry an arbitrary zone offset (ghost: time values in the executor have no
// location; Truncate, Before, After, Equal, IsZero do not depend on it).
var (
	zonesModelS      bool
	zoneOffST        int // seconds east of UTC of req.SigningTime's location
	zoneOffExp       int // ... of req.Expiry's
	encodingRefusedS bool
)

// (time.Time).Zone / UTC: the executor's times carry no location; the offset of the request's two times is the ghost
// above (0 without the zone model), found by the instant asked about. UTC() returns the same instant and remembers it.
var utcInstants []time.Time
var theReqS *signature.SignRequest

func zoneOffsetOf(t time.Time) int {
	if !zonesModelS || theReqS == nil {
		return 0
	}
	off := rt.IteInt(t.Equal(theReqS.Expiry), zoneOffExp, 0)
	off = rt.IteInt(t.Equal(theReqS.SigningTime), zoneOffST, off)
	for _, u := range utcInstants {
		off = rt.IteInt(t.Equal(u), 0, off)
	}
	return off
}
func stubZoneS(t time.Time) (string, int) { return "", zoneOffsetOf(t) }
func stubUTCS(t time.Time) time.Time {
	if zonesModelS {
		utcInstants = append(utcInstants, t)
	}
	return t
}

// rfc3339Writable: can MarshalJSON write t in a location off seconds east of UTC?
func rfc3339Writable(t time.Time, off int) bool {
	local := t.Unix() + int64(off)
	yearOK := rt.And(local >= -62167219200, local < 253402300800) // 0000-01-01T00:00:00 .. 9999-12-31T23:59:59 local
	hourOK := rt.And(off > -24*3600, off < 24*3600)
	return rt.And(yearOK, hourOK)
}

// readBack: the instant a reader gets from the text MarshalJSON writes for t in that location
func readBack(t time.Time, off int) time.Time {
	return t.Add(time.Duration(off%60) * time.Second)
}

func textOfTimeZ(t time.Time, off int) string {
	if !zonesModelS {
		return textOfTime(t)
	}
	s := textOfTime(t)
	for i := range timeTexts {
		if rt.Same(timeTexts[i].text, s) {
			timeTexts[i].t = readBack(t, off)
		}
	}
	return s
}

func textOfTime(t time.Time) string {
	for _, x := range timeTexts {
		if eq := x.t.Equal(t); rt.IsConcrete(eq) && eq {
			return x.text
		}
	}
	s := rt.AtomString(rt.Name("rfc3339"))
	timeTexts = append(timeTexts, timeText{s, t})
	return s
}

// the payload document
var payloadKind int = -1 // 0 a JSON object, 1 the literal null, 2 anything else
var numbersExact bool    // every number in the payload survives the float64 round trip
var useNumber bool
var claimsReencoded []byte
var claimsMap jwt.MapClaims
var claimsEncs []jsonRec

func stubJSONMarshal(v any) ([]byte, error) {
	switch x := v.(type) {
	case *jwsEnvelope:
		finalCallsS++
		if finalCallsS == 1 {
			finalFails = (!wellBehavedS || lateFaultsS) && rt.Choose("final.encoding.fails", 2) == 1
		}
		if finalFails {
			return nil, rt.NewEnvError("json.encode")
		}
		finalBytes = rt.Atom("jws.envelope.bytes")
		rt.Assume(len(finalBytes) > 0)
		jsonRecs = append(jsonRecs, jsonRec{finalBytes, x})
		return finalBytes, nil
	case jwt.MapClaims:
		// re-encoding of the decoded payload: the same document iff no number was damaged by the decoding
		for _, r := range claimsEncs {
			if rt.Same(r.v, x) {
				return r.raw, nil
			}
		}
		claimsReencoded = rt.Atom(rt.Name("claims.reencoded"))
		rt.Assume(len(claimsReencoded) > 0)
		claimsEncs = append(claimsEncs, jsonRec{claimsReencoded, x})
		return claimsReencoded, nil
	}
	for _, r := range jsonRecs {
		if rt.Same(r.v, v) {
			return r.raw, nil
		}
	}
	if h, isHeader := v.(jwsProtectedHeader); isHeader && zonesModelS {
		ok := true
		if h.Expiry != nil {
			ok = rt.And(ok, rfc3339Writable(*h.Expiry, zoneOffsetOf(*h.Expiry)))
		}
		if h.SigningTime != nil {
			ok = rt.And(ok, rfc3339Writable(*h.SigningTime, zoneOffsetOf(*h.SigningTime)))
		}
		if h.AuthenticSigningTime != nil {
			ok = rt.And(ok, rfc3339Writable(*h.AuthenticSigningTime, zoneOffsetOf(*h.AuthenticSigningTime)))
		}
		if !ok {
			encodingRefusedS = true
			return nil, rt.NewEnvError("json.time.range")
		}
	}
	raw := rt.Atom(rt.Name("json"))
	rt.Assume(len(raw) > 0)
	jsonRecs = append(jsonRecs, jsonRec{raw, v})
	return raw, nil
}

func recOf(data []byte) (any, bool) {
	for _, r := range jsonRecs {
		if rt.Same(r.raw, data) {
			return r.v, true
		}
	}
	return nil, false
}

var thePayloadBytes []byte

// decodeClaims: the payload document is 0 a JSON object, 1 the literal null, 2 something else (another kind, or not JSON),
// 3 a JSON object followed by further data. whole = the decoder insists on a single value (json.Unmarshal does).
func decodeClaims(p *jwt.MapClaims, whole bool) error {
	if payloadKind < 0 {
		payloadKind = rt.Choose("payload.json.kind", 4)
		numbersExact = rt.Bool("payload.numbers.survive.float64")
	}
	switch payloadKind {
	case 0:
		claimsMap = jwt.MapClaims{}
		*p = claimsMap
		return nil
	case 1:
		return nil // JSON null into a map: the map stays nil and there is NO error
	case 3:
		if !whole {
			claimsMap = jwt.MapClaims{}
			*p = claimsMap
			return nil
		}
	}
	return rt.NewEnvError("json")
}

// a json.Decoder over the payload (the only place one is used on the sign side)
func stubUseNumber(d *json.Decoder) { useNumber = true }
func stubDecodeS(d *json.Decoder, v any) error {
	p, ok := v.(*jwt.MapClaims)
	if !ok {
		rt.Fail("unexpected Decoder.Decode target (sign side)")
	}
	return decodeClaims(p, false)
}
// More() after the top-level value: "is there another element in the current array or object" - false at the end of the
// input AND when the next non-space byte is ']' or '}', whatever follows
var trailingStartsClosing, trailingAsked bool

func stubMoreS(d *json.Decoder) bool {
	if payloadKind != 3 {
		return false // nothing follows the value
	}
	if !trailingAsked {
		trailingAsked = true
		trailingStartsClosing = rt.Bool("payload.trailing.data.starts.with.a.closing.bracket")
	}
	return !trailingStartsClosing
}

// Buffered() / InputOffset(): what is left after the value is empty exactly when nothing follows it
func stubBufferedS(d *json.Decoder) io.Reader {
	rt.Fail("json.Decoder.Buffered is not modelled (sign side)")
	return nil
}
func stubInputOffsetS(d *json.Decoder) int64 {
	rt.Fail("json.Decoder.InputOffset is not modelled (sign side)")
	return 0
}

func stubTokenS(d *json.Decoder) (json.Token, error) {
	if payloadKind == 3 {
		return json.Delim('{'), nil
	}
	return nil, io.EOF
}

func stubJSONUnmarshalS(data []byte, v any) error {
	switch p := v.(type) {
	case *jwt.MapClaims:
		if !rt.Same(data, thePayloadBytes) {
			rt.Fail("MapClaims decoded from bytes other than the request payload")
		}
		return decodeClaims(p, true)
	case *map[string]interface{}:
		src, ok := recOf(data)
		if !ok {
			rt.Fail("json.Unmarshal(map) of bytes that json.Marshal did not produce")
		}
		switch s := src.(type) {
		case jwsProtectedHeader:
			*p = structToMap(s)
		case map[string]interface{}:
			// encoding/json decodes a JSON number into interface{} as float64 (json.Unmarshal has no UseNumber): an
			// integer written by Marshal comes back as the nearest float64
			m := map[string]interface{}{}
			for k, val := range s {
				if n, isInt := val.(int64); isInt && numbersModelS {
					m[k] = float64(n)
				} else {
					m[k] = val
				}
			}
			*p = m
		default:
			rt.Fail("unexpected source for a map decode")
		}
		return nil
	case *jwsProtectedHeader:
		src, ok := recOf(data)
		if !ok {
			rt.Fail("json.Unmarshal(struct) of bytes that json.Marshal did not produce")
		}
		m, isMap := src.(map[string]interface{})
		if !isMap {
			rt.Fail("protected header decoded from something that is not the header map")
		}
		return mapToStruct(m, p)
	}
	rt.Fail("unexpected json.Unmarshal target (sign side)")
	return nil
}

// structToMap: encoding/json's view of jwsProtectedHeader (tags as in signature/jws/types.go: alg, cty, crit omitempty,
// expiry omitempty, signingScheme, signingTime omitempty, authenticSigningTime omitempty, ExtendedAttributes "-")
func structToMap(s jwsProtectedHeader) map[string]interface{} {
	m := map[string]interface{}{"alg": s.Algorithm, "cty": s.ContentType, "io.cncf.notary.signingScheme": string(s.SigningScheme)}
	if len(s.Critical) > 0 {
		l := []interface{}{}
		for _, c := range s.Critical {
			l = append(l, c)
		}
		m["crit"] = l
	}
	if s.Expiry != nil {
		m["io.cncf.notary.expiry"] = textOfTimeZ(*s.Expiry, zoneOffsetOf(*s.Expiry))
	}
	if s.SigningTime != nil {
		m["io.cncf.notary.signingTime"] = textOfTimeZ(*s.SigningTime, zoneOffsetOf(*s.SigningTime))
	}
	if s.AuthenticSigningTime != nil {
		m["io.cncf.notary.authenticSigningTime"] = textOfTimeZ(*s.AuthenticSigningTime, zoneOffsetOf(*s.AuthenticSigningTime))
	}
	return m
}

// ---- letter case: encoding/json fills a struct ignoring the case of keys, member by member in the order of the text
// (json.Marshal writes a map's keys sorted), so the last member matching a field wins. With foldModelS on, the key of
// the first extended attribute may differ from ONE specified key only in letter case, and may sort after it.
// numbersModelS: model the float64 decoding of integer attribute values (see float64Exact)
var numbersModelS bool

// float64Exact: is the int64 v exactly representable as a float64 (so that it survives JSON decoding into interface{})?
func float64Exact(v int64) bool {
	a := uint64(rt.IteInt(v < 0, int(-v), int(v))) // |v|; MinInt64 gives 2^63
	exact := a < 1<<53
	for k := uint(1); k <= 11; k++ { // bit length 53+k: the low k bits must be zero
		exact = rt.Or(exact, rt.And(a>>(52+k) == 1, a&(1<<k-1) == 0))
	}
	return exact
}

var (
	foldModelS bool
	foldIdxS   = -1
	foldAfterS bool
)

func variantKeyS() (string, bool) {
	if foldIdxS < 0 || len(attrsS) == 0 {
		return "", false
	}
	t, isText := attrsS[0].key.(string)
	return t, isText
}

// member: what the struct field of specified key k is decoded from
func member(m map[string]interface{}, k string) (interface{}, bool) {
	if vk, ok := variantKeyS(); ok && k == specKeysS[foldIdxS] {
		if vv, has := m[vk]; has {
			if _, exact := m[k]; !exact || foldAfterS {
				return vv, true
			}
		}
	}
	v, ok := m[k]
	return v, ok
}

func stubEqualFoldS(a, b string) bool {
	if vk, ok := variantKeyS(); ok {
		if (rt.Same(a, vk) && b == specKeysS[foldIdxS]) || (rt.Same(b, vk) && a == specKeysS[foldIdxS]) {
			return true
		}
		if rt.Same(a, vk) || rt.Same(b, vk) {
			return false
		}
	}
	return rt.StrEq(a, b)
}

func textField(m map[string]interface{}, k string, dst *string) error {
	v, ok := member(m, k)
	if !ok || v == nil {
		return nil
	}
	s, isText := v.(string)
	if !isText {
		return rt.NewEnvError("json.kind")
	}
	*dst = s
	return nil
}
func timeField(m map[string]interface{}, k string, dst **time.Time) error {
	v, ok := member(m, k)
	if !ok || v == nil {
		return nil
	}
	s, isText := v.(string)
	if !isText {
		return rt.NewEnvError("json.kind")
	}
	for _, x := range timeTexts {
		if rt.Same(x.text, s) {
			t := x.t
			*dst = &t
			return nil
		}
	}
	// some other text (for instance the value of an extended attribute): RFC 3339 parsing gives any instant, or fails -
	// the same answer for the same text
	for _, x := range foreignTexts {
		if rt.Same(x.text, s) {
			if x.err {
				return rt.NewEnvError("json.time")
			}
			t := x.t
			*dst = &t
			return nil
		}
	}
	ft := foreignText{text: s}
	if rt.Choose(rt.Name("rfc3339.parse.err"), 2) == 1 {
		ft.err = true
		foreignTexts = append(foreignTexts, ft)
		return rt.NewEnvError("json.time")
	}
	ft.t = rt.Time(rt.Name("parsed.time"))
	foreignTexts = append(foreignTexts, ft)
	t := ft.t
	*dst = &t
	return nil
}

type foreignText struct {
	text string
	t    time.Time
	err  bool
}

var foreignTexts []foreignText

func mapToStruct(m map[string]interface{}, p *jwsProtectedHeader) error {
	var out jwsProtectedHeader
	if err := textField(m, "alg", &out.Algorithm); err != nil {
		return err
	}
	if err := textField(m, "cty", &out.ContentType); err != nil {
		return err
	}
	var scheme string
	if err := textField(m, "io.cncf.notary.signingScheme", &scheme); err != nil {
		return err
	}
	out.SigningScheme = signature.SigningScheme(scheme)
	if v, ok := member(m, "crit"); ok && v != nil {
		l, isList := v.([]interface{})
		if !isList {
			return rt.NewEnvError("json.kind")
		}
		for _, e := range l {
			s, isText := e.(string)
			if !isText {
				return rt.NewEnvError("json.kind")
			}
			out.Critical = append(out.Critical, s)
		}
	}
	if err := timeField(m, "io.cncf.notary.expiry", &out.Expiry); err != nil {
		return err
	}
	if err := timeField(m, "io.cncf.notary.signingTime", &out.SigningTime); err != nil {
		return err
	}
	if err := timeField(m, "io.cncf.notary.authenticSigningTime", &out.AuthenticSigningTime); err != nil {
		return err
	}
	out.ExtendedAttributes = p.ExtendedAttributes
	*p = out
	return nil
}

// ---- hashing, primitives, signers
func stubHashAvail(h crypto.Hash) bool { return true }

type envHashS struct {
	h       crypto.Hash
	written []byte
}

func (e *envHashS) Write(p []byte) (int, error) { e.written = p; return len(p), nil }
func (e *envHashS) Reset()                      {}
func (e *envHashS) Size() int                   { return 32 }
func (e *envHashS) BlockSize() int              { return 64 }

type digS struct {
	h       int
	content []byte
	digest  []byte
}

var digsS []digS

func (e *envHashS) Sum(b []byte) []byte {
	for _, d := range digsS {
		if d.h == int(e.h) && rt.Same(d.content, e.written) {
			return d.digest
		}
	}
	d := rt.Atom(rt.Name("digest"))
	digsS = append(digsS, digS{int(e.h), e.written, d})
	return d
}
func stubHashNewS(h crypto.Hash) hash.Hash { return &envHashS{h: h} }

type signEv struct {
	content []byte
	sig     []byte
	hash    int
}

var signLogS []signEv
var signErrS bool

func stubSignPSS(r io.Reader, priv *rsa.PrivateKey, h crypto.Hash, digest []byte, opts *rsa.PSSOptions) ([]byte, error) {
	if !wellBehavedS && rt.Choose("sign.err", 2) == 1 {
		signErrS = true
		return nil, rt.NewEnvError("sign")
	}
	var content []byte
	for _, d := range digsS {
		if rt.Same(d.digest, digest) {
			content = d.content
		}
	}
	sig := rt.Atom(rt.Name("signature"))
	if wellBehavedS {
		rt.Assume(len(sig) > 0) // a well-behaved signer does not return an empty signature
	}
	signLogS = append(signLogS, signEv{content, sig, int(h)})
	return sig, nil
}

var signerCertsS []*x509.Certificate
var keySpecCallsS int
var theKeySpecS signature.KeySpec
var keySpecErrS bool

type envRemoteS struct{}

func (envRemoteS) KeySpec() (signature.KeySpec, error) {
	keySpecCallsS++
	if keySpecCallsS == 1 {
		keySpecErrS = !wellBehavedS && rt.Choose("keyspec.err", 2) == 1
		theKeySpecS = signature.KeySpec{Type: signature.KeyType(rt.Int("keyspec.type")), Size: rt.Int("keyspec.size")}
	}
	if keySpecErrS {
		return signature.KeySpec{}, rt.NewEnvError("keyspec")
	}
	return theKeySpecS, nil
}
// nilCertS: the chain handed back by the external signer may end in a nil element (H_C16_jws_sign_nilcert)
var nilCertS, nilCertReturnedS bool

func (envRemoteS) Sign(payload []byte) ([]byte, []*x509.Certificate, error) {
	if !wellBehavedS && rt.Choose("sign.err", 2) == 1 {
		signErrS = true
		return nil, nil, rt.NewEnvError("sign")
	}
	sig := rt.Atom(rt.Name("signature"))
	if wellBehavedS {
		rt.Assume(len(sig) > 0) // a well-behaved signer does not return an empty signature
	}
	signLogS = append(signLogS, signEv{payload, sig, 0})
	n := 1
	if !wellBehavedS {
		n = rt.Choose("certs.len", 3)
	}
	signerCertsS = nil
	for i := 0; i < n; i++ {
		if nilCertS && rt.Choose("cert.nil."+certNameS(i), 2) == 1 {
			// an external signer (a plugin) that hands back a chain with a missing element
			nilCertReturnedS = true
			return sig, append(append([]*x509.Certificate{}, signerCertsS...), nil), nil
		}
		signerCertsS = append(signerCertsS, rt.Havoc[*x509.Certificate](certNameS(i)))
	}
	allCertsS = append(allCertsS, signerCertsS...)
	return sig, signerCertsS, nil
}

type envLocalS struct {
	envRemoteS
	key      crypto.PrivateKey
	chainErr bool
}

func (s *envLocalS) Sign(payload []byte) ([]byte, []*x509.Certificate, error) {
	rt.Fail("local signer asked to sign directly")
	return nil, nil, nil
}
func (s *envLocalS) CertificateChain() ([]*x509.Certificate, error) {
	if s.chainErr {
		return nil, rt.NewEnvError("chain")
	}
	return signerCertsS, nil
}
func (s *envLocalS) PrivateKey() crypto.PrivateKey { return s.key }

// certificates of different requests on one object are different certificates
var reqNoS int
var allCertsS []*x509.Certificate

func certNameS(i int) string {
	if reqNoS == 0 {
		return "cert" + string(rune('0'+i))
	}
	return "r" + string(rune('0'+reqNoS)) + ".cert" + string(rune('0'+i))
}

func stubParseCertS(der []byte) (*x509.Certificate, error) {
	for _, c := range allCertsS {
		if rt.Same(c.Raw, der) {
			return c, nil
		}
	}
	for _, c := range signerCertsS {
		if rt.Same(c.Raw, der) {
			return c, nil
		}
	}
	rt.Fail("ParseCertificate on bytes that are not the Raw of a signer certificate")
	return nil, nil
}

var chainOKS, chainTimeOKS bool
var chainCallsS int

func sumChainS(chain []*x509.Certificate, t *time.Time) error {
	chainCallsS++
	if chainCallsS == 1 {
		chainOKS, chainTimeOKS = rt.Bool("chain.ok"), rt.Bool("chain.valid.at.signing.time")
	}
	ok := chainOKS
	if t != nil {
		ok = rt.And(chainOKS, chainTimeOKS)
	}
	if ok {
		return nil
	}
	return rt.NewEnvError("chain")
}

var tsCallsS int
var tsOptsS tspclient.RequestOptions
var tsReqS *signature.SignRequest
var tsTokenS []byte
var tsErrS bool

func sumTimestampS(req *signature.SignRequest, opts tspclient.RequestOptions) ([]byte, error) {
	tsCallsS++
	tsOptsS, tsReqS = opts, req
	if rt.Choose("timestamp.err", 2) == 1 {
		tsErrS = true
		return nil, rt.NewEnvError("timestamp")
	}
	tsTokenS = rt.Atom("timestamp.token")
	return tsTokenS, nil
}

type envTimestamperS struct{}

func (envTimestamperS) Timestamp(ctx context.Context, r *tspclient.Request) (*tspclient.Response, error) {
	rt.Fail("timestamper reached below the summary")
	return nil, nil
}

// newRequest: forget what the environment remembered about the previous request (a second Sign on the same object)
func newRequest() {
	payloadKind, claimsReencoded, claimsMap = -1, nil, nil
	trailingAsked = false
	finalCallsS, finalFails, finalBytes = 0, false, nil
	signLogS, signErrS = nil, false
	keySpecCallsS, chainCallsS = 0, 0
	attrsS = nil
	reqNoS++
	foldIdxS, foldAfterS = -1, false
	encodingRefusedS = false
	utcInstants = nil
}
