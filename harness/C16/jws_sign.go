//go:build verif

// C16 / C20 / C15.L3 / C08 (JWS) — base.Envelope.Sign with the REAL jws envelope, golang-jwt SignedString / signing-method
// glue and the repo's header merging on ARBITRARY sign requests (as the COSE harness: any payload document, instants,
// scheme text, 0..2 extended attributes with text / integer / boolean keys - text keys may equal specified header names -,
// nil / remote / local RSA signer, arbitrary certificates, failing signer, failing final encoding, timestamper or not).
//verif:pkg signature/jws
//verif:include jws_sign_env.go
//verif:harness H_C16_jws_sign_attrs
//verif:harness H_C16_jws_sign_signer
//verif:harness H_C16_jws_sign_nilcert
//verif:harness H_C08_jws_sign_fold
package jws

import (
	"crypto/rsa"
	"crypto/x509"
	"time"

	"github.com/notaryproject/tspclient-go"

	rt "github.com/notaryproject/notation-core-go/internal/zzverifrt"
	"github.com/notaryproject/notation-core-go/signature"
	"github.com/notaryproject/notation-core-go/signature/internal/base"
)

type attrS struct {
	key  any
	crit bool
	val  any
}

var attrsS []attrS
var signerKindS int
var focusS int

func buildRequestS() *signature.SignRequest {
	req := &signature.SignRequest{}
	thePayloadBytes = rt.Atom("payload")
	req.Payload = signature.Payload{ContentType: rt.AtomString("cty"), Content: thePayloadBytes}
	req.SigningTime, req.Expiry = rt.Time("signingTime"), rt.Time("expiry")
	if zonesModelS {
		zoneOffST, zoneOffExp = rt.Int("signingTime.zone.offset"), rt.Int("expiry.zone.offset")
		rt.Assume(zoneOffST > -200000 && zoneOffST < 200000 && zoneOffExp > -200000 && zoneOffExp < 200000)
	}
	req.SigningScheme = signature.SigningScheme(rt.AtomString("scheme"))
	req.SigningAgent = rt.AtomString("agent")
	maxAttrs := rt.Bound("attributes_max", 2, 2)
	if focusS >= 2 {
		maxAttrs = 1
	}
	if foldModelS {
		maxAttrs = 1 // the letter-case variant is the first attribute
	}
	if focusS == 4 || focusS == 5 { // a plain request without attributes (first step of the C20 sequence; zones)
		maxAttrs = 0
	}
	n := rt.Choose("attrs", 1+maxAttrs)
	for i := 0; i < n; i++ {
		q := "attr" + string(rune('0'+i))
		a := attrS{key: rt.Havoc[any](q + ".key"), crit: rt.Bool(q + ".critical"), val: rt.Havoc[any](q + ".Value")}
		attrsS = append(attrsS, a)
		req.ExtendedSignedAttributes = append(req.ExtendedSignedAttributes, signature.Attribute{Key: a.key, Critical: a.crit, Value: a.val})
		if i == 0 && foldModelS {
			if t, isText := a.key.(string); isText {
				foldIdxS = rt.Choose("fold.key", len(specKeysS))
				foldAfterS = rt.Choose("fold.sorts.after", 2) == 1
				for _, s := range specKeysS { // it differs in case, so it is none of the specified keys itself
					rt.Assume(rt.Not(rt.StrEq(t, s)))
				}
			}
		}
	}
	if focusS == 1 || focusS == 3 || focusS == 4 || focusS == 5 {
		wellBehavedS, lateFaultsS = true, focusS == 3
		signerKindS = 1
		req.Signer = envRemoteS{}
		return req
	}
	signerKindS = rt.Choose("signer", 3)
	switch signerKindS {
	case 1:
		req.Signer = envRemoteS{}
	case 2:
		key := &rsa.PrivateKey{PublicKey: rsa.PublicKey{N: rt.Big("localkey.N"), E: 65537}}
		ls := &envLocalS{key: key, chainErr: rt.Choose("local.chain.err", 2) == 1}
		nc := rt.Choose("certs.len", 3)
		for i := 0; i < nc; i++ {
			signerCertsS = append(signerCertsS, rt.Havoc[*x509.Certificate](certNameS(i)))
			allCertsS = append(allCertsS, signerCertsS[len(signerCertsS)-1])
		}
		req.Signer = ls
	}
	req.Timestamper = rt.Havoc[tspclient.Timestamper]("timestamper")
	return req
}

var specKeysS = []string{"alg", "cty", "crit", "io.cncf.notary.expiry", "io.cncf.notary.signingTime", "io.cncf.notary.signingScheme", "io.cncf.notary.authenticSigningTime"}

// invalidAttrsS: a key that is not text, a repeated key, a key colliding with a specification-defined header
// textsValidS: every text of the request that the envelope carries is valid UTF-8 (the codec's domain)
func textsValidS(req *signature.SignRequest, looked bool) bool {
	ok := rt.And(stubValidStringS(req.Payload.ContentType), stubValidStringS(req.SigningAgent))
	for _, a := range attrsS {
		// looked: only keys / values whose dynamic type the code under test has looked at (a refusal cannot be due to
		// the others, and deciding their type here would only multiply paths)
		if !looked || rt.Resolved(a.key) {
			if t, isText := a.key.(string); isText {
				ok = rt.And(ok, stubValidStringS(t))
			}
		}
		if !looked || rt.Resolved(a.val) {
			if t, isText := a.val.(string); isText {
				ok = rt.And(ok, stubValidStringS(t))
			}
		}
	}
	return ok
}

func invalidAttrsS() bool {
	bad := false
	for i, a := range attrsS {
		t, isText := a.key.(string)
		if !isText {
			bad = true
			continue
		}
		for _, s := range specKeysS {
			bad = rt.Or(bad, rt.StrEq(t, s))
		}
		for _, b := range attrsS[:i] {
			if t2, ok := b.key.(string); ok {
				bad = rt.Or(bad, rt.StrEq(t, t2))
			}
		}
	}
	return bad
}

func H_C16_jws_sign_attrs()  { focusS = 1; signJWS() }

// the same with a first attribute whose key differs from a specified header only in letter case
func H_C08_jws_sign_fold() { focusS = 1; foldModelS = true; signJWS() }
func H_C16_jws_sign_signer() { focusS = 2; signJWS() }

// an external signer whose chain has a missing (nil) element: "returns a chain that fails code-signing validation" —
// an error and no bytes, never a panic (the complete oracle of signAndCheckJWS looks into the certificates and is not
// used here)
func H_C16_jws_sign_nilcert() {
	focusS, nilCertS = 2, true
	req := buildRequestS()
	e := NewEnvelope().(*base.Envelope)
	var out []byte
	var err error
	_, panicked := rt.Panics(func() { out, err = e.Sign(req) })
	rt.Assert(!panicked, "C16.jws.nilcert.nopanic")
	if panicked {
		return
	}
	rt.Assert((out == nil) != (err == nil), "C16.jws.nilcert.bytes.xor.error")
	if nilCertReturnedS {
		rt.Assert(err != nil, "C16.jws.nilcert.rejected")
	}
}

func jwsRowOfKeySpec() int {
	kind := rt.IteInt(int(theKeySpecS.Type) == 1, rt.KindRSA, rt.IteInt(int(theKeySpecS.Type) == 2, rt.KindEC, rt.KindOther))
	return rt.AlgRow(kind, theKeySpecS.Size)
}

func signJWS() {
	req := buildRequestS()
	signAndCheckJWS(NewEnvelope().(*base.Envelope), req, true)
}

// signAndCheckJWS: Sign(req) on the object e and everything that must hold afterwards; fresh = e was new (otherwise e
// holds an earlier signature, and after a failure it may show that one)
func signAndCheckJWS(e *base.Envelope, req *signature.SignRequest, fresh bool) (out []byte, err error) {
	theReqS = req
	st0, exp0 := req.SigningTime, req.Expiry
	_, panicked := rt.Panics(func() { out, err = e.Sign(req) })
	rt.Assert(!panicked, "C16.jws.nopanic")
	if panicked {
		return
	}
	rt.Assert((out == nil) != (err == nil), "C16.jws.bytes.xor.error")
	st, exp := st0.Truncate(time.Second), exp0.Truncate(time.Second)
	isX509, isSA := rt.StrEq(string(req.SigningScheme), "notary.x509"), rt.StrEq(string(req.SigningScheme), "notary.x509.signingAuthority")
	inv := len(req.Payload.Content) == 0
	inv = rt.Or(inv, st.IsZero())
	inv = rt.Or(inv, rt.And(rt.Not(exp.IsZero()), rt.Not(exp.After(st))))
	inv = rt.Or(inv, rt.Not(rt.Or(isX509, isSA)))
	inv = rt.Or(inv, signerKindS == 0)
	row := 0
	if signerKindS != 0 && keySpecCallsS > 0 {
		inv = rt.Or(inv, keySpecErrS)
		if !keySpecErrS {
			row = jwsRowOfKeySpec()
			inv = rt.Or(inv, row == 0)
		}
	}
	inv = rt.Or(inv, signErrS)
	if signerKindS == 2 {
		inv = rt.Or(inv, req.Signer.(*envLocalS).chainErr)
	}
	if err == nil || len(signLogS) > 0 {
		inv = rt.Or(inv, len(signerCertsS) == 0)
	}
	if chainCallsS > 0 {
		inv = rt.Or(inv, rt.Not(rt.And(chainOKS, chainTimeOKS)))
		if len(signerCertsS) > 0 && row != 0 {
			inv = rt.Or(inv, row != rt.AlgRow(rt.KeyInfo(signerCertsS[0].PublicKey)))
		}
	}
	inv = rt.Or(inv, invalidAttrsS())
	if payloadKind >= 0 {
		inv = rt.Or(inv, payloadKind != 0) // the payload is not (just) a JSON object
	}
	rt.AssertKnown(rt.Implies(inv, err != nil), "C16.jws.invalid.request.rejected", "F8", payloadKind == 1)
	if focusS == 1 || focusS == 5 {
		// with an environment that does not fail, every valid request is signed (open: an attribute key that differs from
		// a specified header only in letter case may be refused)
		// ... and a time that RFC 3339 cannot write (local year outside 0..9999, zone hour above 23) may be refused
		// (the known condition of F13 - a zone offset with seconds - is listed so that the check says which class it is
		// should the repair ever be taken out: the shifted instants make the self-check of Sign fail)
		// ... and a request with a text that is not valid UTF-8 may be refused (the formats cannot carry it)
		rt.AssertKnown(rt.Implies(err != nil, rt.Or(rt.Or(inv, rt.Not(textsValidS(req, true))), foldIdxS >= 0 || encodingRefusedS)), "C08.jws.valid.request.succeeds", "F13", zonesModelS && rt.Or(zoneOffST%60 != 0, zoneOffExp%60 != 0))
	}
	// ---- C15.L3
	wantTS := rt.And(isX509, req.Timestamper != nil)
	if tsCallsS > 0 {
		rt.Assert(wantTS, "C15.L3.jws.timestamp.only.for.x509.with.timestamper")
		rt.Assert(tsCallsS == 1 && tsReqS == req, "C15.L3.jws.timestamp.once")
		rt.Assert(len(signLogS) == 1 && rt.Same(tsOptsS.Content, signLogS[0].sig), "C15.L3.jws.timestamp.over.this.signature")
		rt.Assert(int(tsOptsS.HashAlgorithm) == rt.HashRow(row), "C15.L3.jws.timestamp.hash.of.signing.algorithm")
		if tsErrS {
			_, isTSErr := err.(*signature.TimestampError)
			rt.Assert(err != nil && isTSErr && out == nil, "C15.L3.jws.timestamp.failure.is.timestamp.error")
		}
	}
	if err == nil {
		rt.Assert(rt.Iff(tsCallsS == 1, wantTS), "C15.L3.jws.timestamped.iff.required")
	}
	// ---- C20 on a fresh object
	if err != nil && !fresh {
		return // what the object may show after a failed attempt on a used object is asserted by the sequence harness
	}
	c, verr := e.Content()
	if err != nil {
		_, notFound := verr.(*signature.SignatureNotFoundError)
		rt.Assert(c == nil && notFound, "C20.jws.failed.sign.leaves.no.signature")
		return
	}
	rt.Assert(rt.Same(e.Raw, out) && rt.Same(out, finalBytes), "C20.jws.raw.is.what.sign.returned")
	if verr != nil {
		rt.Note("content after sign failed with", verr)
		if ise, ok := verr.(*signature.InvalidSignatureError); ok {
			rt.Note("message", ise.Msg)
		}
	}
	rt.Assert(verr == nil && c != nil, "C20.jws.content.after.sign")
	if c == nil {
		return
	}
	// ---- C08: the object's content is the request's
	rt.Assert(rt.BytesEq(c.Payload.Content, claimsReencoded), "C08.jws.payload.is.the.reencoded.document")
	// ... and the re-encoded document is the request's JSON value only if no number was damaged on the way
	rt.AssertKnown(rt.Or(useNumber, numbersExact), "C08.jws.payload.numbers.exact", "F4", rt.Not(numbersExact))
	rt.Assert(rt.StrEq(c.Payload.ContentType, req.Payload.ContentType), "C08.jws.content.type")
	// the emitted object is inside the domain on which the JSON round trip is the identity (see ASSUMPTIONS: the bytes
	// are not re-parsed): a text that is not valid UTF-8 would come back with U+FFFD in it
	rt.Assert(textsValidS(req, false), "C08.jws.emitted.texts.are.valid.utf8")
	rt.Assert(rt.StrEq(string(c.SignerInfo.SignedAttributes.SigningScheme), string(req.SigningScheme)), "C08.jws.scheme")
	if zonesModelS {
		// known finding F13: a zone offset with a seconds part moves the instant by that many seconds
		rt.AssertKnown(c.SignerInfo.SignedAttributes.SigningTime.Equal(st), "C08.jws.signing.time.truncated.any.zone", "F13", zoneOffST%60 != 0)
		rt.AssertKnown(rt.Or(exp.IsZero(), c.SignerInfo.SignedAttributes.Expiry.Equal(exp)), "C08.jws.expiry.truncated.any.zone", "F13", zoneOffExp%60 != 0)
	} else {
		rt.Assert(c.SignerInfo.SignedAttributes.SigningTime.Equal(st), "C08.jws.signing.time.truncated")
		rt.Assert(c.SignerInfo.SignedAttributes.Expiry.Equal(exp), "C08.jws.expiry.truncated")
	}
	rt.Assert(int(c.SignerInfo.SignatureAlgorithm) == row && row != 0, "C08.jws.algorithm.of.signer")
	rt.Assert(len(signLogS) == 1 && rt.BytesEq(c.SignerInfo.Signature, signLogS[0].sig), "C08.jws.signature.of.signer")
	rt.Assert(rt.StrEq(c.SignerInfo.UnsignedAttributes.SigningAgent, req.SigningAgent), "C08.jws.agent")
	rt.Assert(len(c.SignerInfo.CertificateChain) == len(signerCertsS), "C08.jws.chain.len")
	if len(c.SignerInfo.CertificateChain) == len(signerCertsS) {
		for i := range signerCertsS {
			rt.Assert(c.SignerInfo.CertificateChain[i] == signerCertsS[i], "C08.jws.chain.order")
		}
	}
	// the bytes handed to the signer are protected + "." + payload of the emitted envelope
	env := e.Envelope.(*envelope).base
	rt.Assert(len(signLogS) == 1 && rt.Same(signLogS[0].content, []byte(env.Protected+"."+env.Payload)), "C08.jws.signed.bytes.are.the.verified.bytes")
	if tsCallsS == 1 && !tsErrS {
		rt.Assert(rt.BytesEq(c.SignerInfo.UnsignedAttributes.TimestampSignature, tsTokenS), "C15.L3.jws.token.embedded")
	} else {
		rt.Assert(len(c.SignerInfo.UnsignedAttributes.TimestampSignature) == 0, "C15.L3.jws.no.token.without.timestamping")
	}
	got := c.SignerInfo.SignedAttributes.ExtendedAttributes
	rt.Assert(len(got) == len(attrsS), "C08.jws.attributes.count")
	for _, a := range attrsS {
		found := 0
		for _, g := range got {
			if rt.Same(g.Key, a.key) {
				found++
				if n, isInt := a.val.(int64); isInt && numbersModelS {
					// a number comes back as float64; it must be the number that was asked for
					f, isF := g.Value.(float64)
					rt.Assert(g.Critical == a.crit && isF && f == float64(n), "C08.jws.attribute.same")
					rt.AssertKnown(float64Exact(n), "C08.jws.attribute.number.exact", "F12", rt.Not(float64Exact(n)))
				} else {
					rt.Assert(g.Critical == a.crit && rt.Same(g.Value, a.val), "C08.jws.attribute.same")
				}
			}
		}
		rt.Assert(found == 1, "C08.jws.attribute.once")
	}
	return
}
