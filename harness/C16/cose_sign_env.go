//go:build verif

// Sign-side environment for COSE (C08, C15.L3, C16, C20): the CBOR encoder/decoder pair is an abstract codec
// (DESIGN.md appendix D): Marshal records what it was given and returns an opaque byte string; Unmarshal of those bytes
// gives the value back in the form the configured decoder yields. Signers, timestamper and chain validation are environment.
//verif:pkg signature/cose
//verif:include ../C07/cose_env.go
//verif:zeroglobal crypto/rand.Reader
//verif:summary github.com/notaryproject/notation-core-go/internal/timestamp.Timestamp -> sumTimestamp
//verif:stub unicode/utf8.ValidString -> stubValidStringC
//verif:iface attr string int64 int uint64 bool []byte float64
//verif:iface timestamper nil github.com/notaryproject/notation-core-go/signature/cose.envTimestamper
//verif:iface .Value int64 bool
package cose

import (
	"context"
	"crypto"
	"crypto/rsa"
	"crypto/x509"
	"io"
	"time"

	"github.com/fxamacker/cbor/v2"
	"github.com/notaryproject/tspclient-go"
	gocose "github.com/veraison/go-cose"

	rt "github.com/notaryproject/notation-core-go/internal/zzverifrt"
	"github.com/notaryproject/notation-core-go/signature"
)

// ---- abstract CBOR codec
type timeEnc struct {
	raw []byte
	t   time.Time
}
type blobEnc struct {
	raw  []byte
	kind string
	v    any
	keys []any // snapshot of a map at encoding time
	vals []any
}

func sameEntries(b blobEnc, m map[any]any) bool {
	if len(m) != len(b.keys) {
		return false
	}
	for i, k := range b.keys {
		v, ok := m[k]
		if !ok || !rt.Same(v, b.vals[i]) {
			return false
		}
	}
	return true
}

var timeEncs []timeEnc
var blobEncs []blobEnc
var marshalFails bool // the final encoding of the message may fail (for instance on an attribute value the encoder rejects)
var finalEncoded []byte
var finalCalls int

func signMarshal(v any) ([]byte, error) {
	switch x := v.(type) {
	case time.Time:
		raw := rt.Atom(rt.Name("cbor.time"))
		timeEncs = append(timeEncs, timeEnc{raw, x})
		return raw, nil
	case cbor.Marshaler: // the encoder calls back into MarshalCBOR (go-cose's header types)
		return x.MarshalCBOR()
	case cbor.Tag:
		finalCalls++
		if finalCalls == 1 {
			marshalFails = (!wellBehaved || lateFaults) && rt.Choose("final.encoding.fails", 2) == 1
		}
		if marshalFails {
			return nil, rt.NewEnvError("cbor.encode")
		}
		finalEncoded = rt.Atom("cose.envelope.bytes")
		rt.Assume(len(finalEncoded) > 0) // an encoding is never empty
		return finalEncoded, nil
	case []byte: // an encoder is a function of its input: the same bytes give the same encoding
		for _, b := range blobEncs {
			if b.kind == "bstr" && rt.Same(b.v, x) {
				return b.raw, nil
			}
		}
		raw := rt.Atom(rt.Name("cbor.bstr"))
		blobEncs = append(blobEncs, blobEnc{raw, "bstr", x, nil, nil})
		return raw, nil
	case map[any]any:
		for _, b := range blobEncs {
			if b.kind == "map" && sameEntries(b, x) {
				return b.raw, nil
			}
		}
		raw := rt.Atom(rt.Name("cbor.map"))
		b := blobEnc{raw, "map", x, nil, nil}
		for k, val := range x {
			b.keys, b.vals = append(b.keys, k), append(b.vals, val)
		}
		blobEncs = append(blobEncs, b)
		return raw, nil
	}
	rt.Fail("cbor Marshal of an unexpected value")
	return nil, nil
}

func signUnmarshal(data []byte, v any) error {
	if p, ok := v.(*time.Time); ok {
		for _, e := range timeEncs {
			if rt.Same(e.raw, data) {
				// TimeUnix + tag 1: whole seconds, UTC
				*p = e.t.Truncate(time.Second).UTC()
				return nil
			}
		}
		rt.Fail("decodeTime of bytes that encodeTime did not produce")
	}
	rt.Fail("unexpected cbor Unmarshal on the sign side")
	return nil
}

// ---- signers
type signEvent struct {
	payload []byte
	sig     []byte
}

var lateFaults bool
var wellBehaved bool // the environment does not fail: key spec available, signing succeeds with one certificate, encoding succeeds
var signLog []signEvent
var signerCerts []*x509.Certificate
var keySpecCalls int
var theKeySpec signature.KeySpec
var keySpecErr bool
var signErr bool

// remote signer: arbitrary key spec (any ints) or an error; Sign returns an arbitrary signature and 0..2 arbitrary
// certificates, or an error
type envRemoteSigner struct{}

func (envRemoteSigner) KeySpec() (signature.KeySpec, error) {
	keySpecCalls++
	if keySpecCalls == 1 {
		keySpecErr = !wellBehaved && rt.Choose("keyspec.err", 2) == 1
		theKeySpec = signature.KeySpec{Type: signature.KeyType(rt.Int("keyspec.type")), Size: rt.Int("keyspec.size")}
	}
	if keySpecErr {
		return signature.KeySpec{}, rt.NewEnvError("keyspec")
	}
	return theKeySpec, nil
}
// nilCert: the chain handed back by the external signer may end in a nil element (H_C16_cose_sign_nilcert)
var nilCert, nilCertReturned bool

func (envRemoteSigner) Sign(payload []byte) ([]byte, []*x509.Certificate, error) {
	if !wellBehaved && rt.Choose("sign.err", 2) == 1 {
		signErr = true
		return nil, nil, rt.NewEnvError("sign")
	}
	sig := rt.Atom(rt.Name("signature"))
	if wellBehaved {
		rt.Assume(len(sig) > 0) // a well-behaved signer does not return an empty signature
	}
	signLog = append(signLog, signEvent{payload, sig})
	n := 1
	if !wellBehaved {
		n = rt.Choose("certs.len", 3)
	}
	signerCerts = nil
	for i := 0; i < n; i++ {
		if nilCert && rt.Choose("cert.nil."+string(rune('0'+i)), 2) == 1 {
			nilCertReturned = true
			return sig, append(append([]*x509.Certificate{}, signerCerts...), nil), nil
		}
		signerCerts = append(signerCerts, rt.Havoc[*x509.Certificate]("cert"+string(rune('0'+i))))
	}
	knownCerts = signerCerts
	return sig, signerCerts, nil
}

// local signer: a crypto.Signer environment key
type envKey struct{ pub crypto.PublicKey }

func (k *envKey) Public() crypto.PublicKey { return k.pub }
func (k *envKey) Sign(r io.Reader, digest []byte, opts crypto.SignerOpts) ([]byte, error) {
	if rt.Choose("sign.err", 2) == 1 {
		signErr = true
		return nil, rt.NewEnvError("sign")
	}
	sig := rt.Atom(rt.Name("signature"))
	if wellBehaved {
		rt.Assume(len(sig) > 0) // a well-behaved signer does not return an empty signature
	}
	signLog = append(signLog, signEvent{contentOf(digest), sig})
	return sig, nil
}

type envLocalSigner struct {
	envRemoteSigner
	key      crypto.PrivateKey
	chainErr bool
}

func (s *envLocalSigner) Sign(payload []byte) ([]byte, []*x509.Certificate, error) {
	rt.Fail("local signer asked to sign directly")
	return nil, nil, nil
}
func (s *envLocalSigner) CertificateChain() ([]*x509.Certificate, error) {
	if s.chainErr {
		return nil, rt.NewEnvError("chain")
	}
	return signerCerts, nil
}
func (s *envLocalSigner) PrivateKey() crypto.PrivateKey { return s.key }

// ---- timestamping (lemma C15.L2 summarised): token bytes or an error
var tsCalls int
var tsOpts tspclient.RequestOptions
var tsReq *signature.SignRequest
var tsToken []byte
var tsErr bool

func sumTimestamp(req *signature.SignRequest, opts tspclient.RequestOptions) ([]byte, error) {
	tsCalls++
	tsOpts, tsReq = opts, req
	if rt.Choose("timestamp.err", 2) == 1 {
		tsErr = true
		return nil, rt.NewEnvError("timestamp")
	}
	tsToken = rt.Atom("timestamp.token")
	return tsToken, nil
}

type envTimestamper struct{}

func (envTimestamper) Timestamp(ctx context.Context, r *tspclient.Request) (*tspclient.Response, error) {
	rt.Fail("timestamper reached below the summary")
	return nil, nil
}

// never reached: timestamp.Timestamp is summarised
var _ = gocose.AlgorithmPS256
var _ = rsa.PSSSaltLengthAuto

// ---- texts. JSON and CBOR text strings are Unicode: a Go string that is not valid UTF-8 is written by encoding/json
// with U+FFFD in place of the offending bytes and by the CBOR encoder as it is - which the CBOR decoder then refuses.
// Whether a text atom is valid UTF-8 is an arbitrary fact about it (memoised); concrete texts of the harness are ASCII.
type utf8RecC struct {
	s     string
	valid bool
}

var utf8LogC []utf8RecC

func stubValidStringC(s string) bool {
	for _, r := range utf8LogC {
		if rt.Same(r.s, s) {
			return r.valid
		}
	}
	v := true
	if !rt.IsConcrete(s == "") { // an atom (comparisons with a concrete text are symbolic)
		v = rt.Bool(rt.Name("text.is.valid.utf8"))
		rt.Assume(rt.Implies(len(s) == 0, v)) // the empty text is valid
	}
	utf8LogC = append(utf8LogC, utf8RecC{s, v})
	return v
}
