//go:build verif

// C16 — base.Envelope.Sign with the request's times in arbitrary locations (../C07/base_times.go).
//verif:pkg signature/internal/base
//verif:include ../C07/base_times.go
//verif:harness H_C16_base_sign_times
package base
