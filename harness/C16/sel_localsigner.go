//go:build verif

// C16 — "a local signer cannot even be constructed from a private key that does not belong to the leaf certificate":
// the harness of ../C02/signer.go
//verif:pkg signature
//verif:include ../C02/signer.go
//verif:harness H_C02_localsigner
package signature
