//go:build verif

// C16 / C20 / C15.L3 (COSE) — base.Envelope.Sign with the REAL cose envelope and go-cose Sign/NewSigner/MarshalCBOR glue on
// ARBITRARY sign requests: any payload, instants (sub-second part included), scheme text, 0..2 extended attributes with
// keys of any dynamic type (text, int64, int, bool, []byte, float64; text keys may equal specified header names, integer
// keys may equal 1, 2, 3), nil / remote / local signer with arbitrary key spec, arbitrary certificates, failing signer,
// failing final encoding, timestamper present or not.
//   C16: invalid(req) (appendix A.5) => (nil, error), never a panic.
//   C20: a signing attempt that returns an error never becomes the object's observable content; after success the object
//        shows the request's content and Raw is what Sign returned.
//   C15.L3: the timestamp summary is called iff scheme is notary.x509 and a timestamper is set, with Content = the signature
//        bytes of THIS message and the table hash of the signing algorithm; the token lands in this message; a timestamp
//        failure gives a TimestampError and no envelope.
//verif:pkg signature/cose
//verif:include cose_sign_env.go
//verif:harness H_C16_cose_sign_attrs
//verif:harness H_C16_cose_sign_signer
//verif:harness H_C16_cose_sign_nilcert
// (H_C16_cose_sign_full - arbitrary signer x two attributes of all key types - is NOT registered: ~7*10^5 paths per
// 6 minutes with no end in sight; the thorough tier is the attribute harness with all key types for both attributes
// plus the signer harness with all key types for its one attribute)
package cose

import (
	"crypto/rsa"
	"crypto/x509"
	"time"

	"github.com/notaryproject/tspclient-go"

	rt "github.com/notaryproject/notation-core-go/internal/zzverifrt"
	"github.com/notaryproject/notation-core-go/signature"
	"github.com/notaryproject/notation-core-go/signature/internal/base"
)

type attrSpec struct {
	key  any
	crit bool
	val  any
}

var attrs []attrSpec
var signerKind int // 0 nil, 1 remote, 2 local (RSA key)
var ctyChoice int

// focus: 0 everything arbitrary (thorough tier); 1 attributes arbitrary under a well-behaved remote signer without
// timestamper; 2 signer / certificates / timestamper / final encoding arbitrary with at most one attribute
var focus int

var ctyValues = []string{"application/vnd.cncf.notary.payload.v1+json", "nosubtype"}

func buildRequest() *signature.SignRequest {
	signSideMarshal, signSideUnmarshal = signMarshal, signUnmarshal
	req := &signature.SignRequest{}
	ctyChoice = rt.Choose("cty", len(ctyValues))
	req.Payload = signature.Payload{ContentType: ctyValues[ctyChoice], Content: rt.Atom("payload")}
	req.SigningTime, req.Expiry = rt.Time("signingTime"), rt.Time("expiry")
	req.SigningScheme = signature.SigningScheme(rt.AtomString("scheme"))
	req.SigningAgent = rt.AtomString("agent")
	maxAttrs := rt.Bound("attributes_max", 2, 2)
	if focus >= 2 {
		maxAttrs = 1
	}
	n := rt.Choose("attrs", 1+maxAttrs)
	for i := 0; i < n; i++ {
		q := "attr" + string(rune('0'+i))
		a := attrSpec{key: rt.Havoc[any](q + ".key"), crit: rt.Bool(q + ".critical"), val: rt.Havoc[any](q + ".Value")}
		// integer keys range over all int64 except go-cose's other generic parameters (kid, IV, countersignatures, typ, …),
		// whose values go-cose type-checks: outside the claim
		if (n > 1 || focus >= 2) && !rt.Thorough() {
			// quick tier: with two attributes, and where the signer / late failures are the subject, the keys are texts or
			// (un)signed integers; every other key type is covered by the single-attribute paths of the attribute
			// harness (the thorough tier has the full product)
			switch a.key.(type) {
			case string, int64, uint64:
			default:
				rt.Assume(false)
			}
		}
		if c, _, kn := keyClass(a.key); c == 2 {
			rt.Assume(rt.Or(kn < 4, kn > 16))
		}
		attrs = append(attrs, a)
		req.ExtendedSignedAttributes = append(req.ExtendedSignedAttributes, signature.Attribute{Key: a.key, Critical: a.crit, Value: a.val})
	}
	if focus == 3 { // C20: a well-behaved remote signer; only the late failures remain (chain not valid at the signing time, final encoding)
		wellBehaved, noCodecFaults, lateFaults = true, true, true
		signerKind = 1
		req.Signer = envRemoteSigner{}
		return req
	}
	if focus == 1 {
		wellBehaved, noCodecFaults = true, true
		signerKind = 1
		req.Signer = envRemoteSigner{}
		return req
	}
	signerKind = rt.Choose("signer", 3)
	switch signerKind {
	case 1:
		req.Signer = envRemoteSigner{}
	case 2:
		pub := &rsa.PublicKey{N: rt.Big("localkey.N"), E: 65537}
		ls := &envLocalSigner{key: &envKey{pub: pub}, chainErr: rt.Choose("local.chain.err", 2) == 1}
		nc := rt.Choose("certs.len", 3)
		for i := 0; i < nc; i++ {
			signerCerts = append(signerCerts, rt.Havoc[*x509.Certificate]("cert"+string(rune('0'+i))))
		}
		knownCerts = signerCerts
		req.Signer = ls
	}
	req.Timestamper = rt.Havoc[tspclient.Timestamper]("timestamper") // nil or a timestamper: decided when the code looks
	return req
}

// keyClass: how the format sees an attribute key: 0 not representable, 1 text, 2 integer
func keyClass(k any) (class int, text string, num int64) {
	switch x := k.(type) {
	case string:
		return 1, x, 0
	case int64:
		return 2, "", x
	case int:
		return 2, "", int64(x)
	case uint64:
		// an unsigned label is the integer label of the same value; beyond int64 the format as implemented by go-cose
		// cannot represent it (UnmarshalCBOR reads integer labels into int64): class 0
		if x > 1<<63-1 { // symbolic: forks
			return 0, "", 0
		}
		return 2, "", int64(x)
	}
	return 0, "", 0
}

var specText = []string{"io.cncf.notary.expiry", "io.cncf.notary.signingScheme", "io.cncf.notary.signingTime", "io.cncf.notary.authenticSigningTime"}

// textsValid: every text of the request that the envelope carries is valid UTF-8 (the codec's domain)
func textsValid(req *signature.SignRequest, looked bool) bool {
	ok := rt.And(stubValidStringC(req.Payload.ContentType), stubValidStringC(req.SigningAgent))
	for _, a := range attrs {
		// looked: only keys / values whose dynamic type the code under test has looked at (a refusal cannot be due to
		// the others, and deciding their type here would only multiply paths)
		if !looked || rt.Resolved(a.key) {
			if t, isText := a.key.(string); isText {
				ok = rt.And(ok, stubValidStringC(t))
			}
		}
		if !looked || rt.Resolved(a.val) {
			if t, isText := a.val.(string); isText {
				ok = rt.And(ok, stubValidStringC(t))
			}
		}
	}
	return ok
}

// invalidAttrs: repeated key, key colliding with a specification-defined header, key the format cannot represent
func invalidAttrs() bool {
	bad := false
	for i, a := range attrs {
		c, t, n := keyClass(a.key)
		switch c {
		case 0:
			bad = true
		case 1:
			for _, s := range specText {
				bad = rt.Or(bad, rt.StrEq(t, s))
			}
		case 2:
			bad = rt.Or(bad, rt.Or(n == 1, rt.Or(n == 2, n == 3)))
		}
		for _, b := range attrs[:i] {
			c2, t2, n2 := keyClass(b.key)
			if c == c2 && c == 1 {
				bad = rt.Or(bad, rt.StrEq(t, t2))
			}
			if c == c2 && c == 2 {
				bad = rt.Or(bad, n == n2)
			}
		}
	}
	return bad
}

func H_C16_cose_sign_attrs()  { focus = 1; signCOSE() }
func H_C16_cose_sign_signer() { focus = 2; signCOSE() }

// an external signer whose chain has a missing (nil) element: an error and no bytes, never a panic
func H_C16_cose_sign_nilcert() {
	focus, nilCert = 2, true
	req := buildRequest()
	e := NewEnvelope().(*base.Envelope)
	var out []byte
	var err error
	_, panicked := rt.Panics(func() { out, err = e.Sign(req) })
	rt.Assert(!panicked, "C16.cose.nilcert.nopanic")
	if panicked {
		return
	}
	rt.Assert((out == nil) != (err == nil), "C16.cose.nilcert.bytes.xor.error")
	if nilCertReturned {
		rt.Assert(err != nil, "C16.cose.nilcert.rejected")
	}
}
func H_C16_cose_sign_full()   { focus = 0; signCOSE() }

func signCOSE() {
	req := buildRequest()
	st0, exp0 := req.SigningTime, req.Expiry
	e := NewEnvelope().(*base.Envelope)
	var out []byte
	var err error
	_, panicked := rt.Panics(func() { out, err = e.Sign(req) })
	rt.Assert(!panicked, "C16.cose.nopanic")
	if panicked {
		return
	}
	rt.Assert((out == nil) != (err == nil), "C16.cose.bytes.xor.error")
	st, exp := st0.Truncate(time.Second), exp0.Truncate(time.Second)
	isX509, isSA := rt.StrEq(string(req.SigningScheme), "notary.x509"), rt.StrEq(string(req.SigningScheme), "notary.x509.signingAuthority")
	// ---- A.5: invalid requests
	inv := len(req.Payload.Content) == 0
	inv = rt.Or(inv, st.IsZero())
	inv = rt.Or(inv, rt.And(rt.Not(exp.IsZero()), rt.Not(exp.After(st))))
	inv = rt.Or(inv, rt.Not(rt.Or(isX509, isSA)))
	inv = rt.Or(inv, signerKind == 0)
	row := 0
	if signerKind != 0 && keySpecCalls > 0 {
		inv = rt.Or(inv, keySpecErr)
		if !keySpecErr {
			kind := rt.IteInt(int(theKeySpec.Type) == 1, rt.KindRSA, rt.IteInt(int(theKeySpec.Type) == 2, rt.KindEC, rt.KindOther))
			row = rt.AlgRow(kind, theKeySpec.Size)
			inv = rt.Or(inv, row == 0)
		}
	}
	inv = rt.Or(inv, signErr)
	if signerKind == 2 {
		inv = rt.Or(inv, req.Signer.(*envLocalSigner).chainErr)
	}
	if err == nil || len(signLog) > 0 {
		inv = rt.Or(inv, len(signerCerts) == 0)
	}
	if chainCalls > 0 {
		inv = rt.Or(inv, rt.Not(rt.And(chainVerdict, chainTimeOK))) // chain fails code-signing validation at the signing time
		if len(signerCerts) > 0 && row != 0 {
			inv = rt.Or(inv, row != rt.AlgRow(rt.KeyInfo(signerCerts[0].PublicKey)))
		}
	}
	inv = rt.Or(inv, invalidAttrs())
	rt.Assert(rt.Implies(inv, err != nil), "C16.cose.invalid.request.rejected")
	if focus == 1 {
		// with an environment that does not fail, every valid request (with a well-formed content type) is signed
		rt.Assert(rt.Implies(err != nil, rt.Or(rt.Or(inv, rt.Not(textsValid(req, true))), ctyChoice != 0)), "C08.cose.valid.request.succeeds")
	}
	// ---- C15.L3
	wantTS := rt.And(isX509, req.Timestamper != nil)
	if tsCalls > 0 {
		rt.Assert(wantTS, "C15.L3.cose.timestamp.only.for.x509.with.timestamper")
		rt.Assert(tsCalls == 1 && tsReq == req, "C15.L3.cose.timestamp.once")
		rt.Assert(len(signLog) == 1 && rt.Same(tsOpts.Content, signLog[0].sig), "C15.L3.cose.timestamp.over.this.signature")
		rt.Assert(int(tsOpts.HashAlgorithm) == rt.HashRow(row), "C15.L3.cose.timestamp.hash.of.signing.algorithm")
		if tsErr {
			_, isTSErr := err.(*signature.TimestampError)
			rt.Assert(err != nil && isTSErr && out == nil, "C15.L3.cose.timestamp.failure.is.timestamp.error")
		}
	}
	if err == nil {
		rt.Assert(rt.Iff(tsCalls == 1, wantTS), "C15.L3.cose.timestamped.iff.required")
	}
	// ---- C20 on a fresh object
	c, verr := e.Content()
	if err != nil {
		_, notFound := verr.(*signature.SignatureNotFoundError)
		rt.Assert(c == nil && notFound, "C20.cose.failed.sign.leaves.no.signature")
		return
	}
	rt.Assert(rt.Same(e.Raw, out) && rt.Same(out, finalEncoded) && finalCalls >= 1, "C20.cose.raw.is.what.sign.returned")
	rt.Assert(verr == nil && c != nil, "C20.cose.content.after.sign")
	if c == nil {
		return
	}
	// the object's content is the request's
	rt.Assert(rt.BytesEq(c.Payload.Content, req.Payload.Content) && c.Payload.ContentType == req.Payload.ContentType, "C08.cose.payload")
	rt.Assert(rt.StrEq(string(c.SignerInfo.SignedAttributes.SigningScheme), string(req.SigningScheme)), "C08.cose.scheme")
	rt.Assert(c.SignerInfo.SignedAttributes.SigningTime.Equal(st), "C08.cose.signing.time.truncated")
	rt.Assert(c.SignerInfo.SignedAttributes.Expiry.Equal(exp), "C08.cose.expiry.truncated")
	rt.Assert(int(c.SignerInfo.SignatureAlgorithm) == row && row != 0, "C08.cose.algorithm.of.signer")
	rt.Assert(len(signLog) == 1 && rt.BytesEq(c.SignerInfo.Signature, signLog[0].sig), "C08.cose.signature.of.signer")
	rt.Assert(len(c.SignerInfo.CertificateChain) == len(signerCerts), "C08.cose.chain.len")
	if len(c.SignerInfo.CertificateChain) == len(signerCerts) {
		for i := range signerCerts {
			rt.Assert(c.SignerInfo.CertificateChain[i] == signerCerts[i], "C08.cose.chain.order")
		}
	}
	rt.Assert(rt.StrEq(c.SignerInfo.UnsignedAttributes.SigningAgent, req.SigningAgent), "C08.cose.agent")
	// the emitted object is inside the domain on which the CBOR round trip is the identity (the bytes are not
	// re-parsed): the decoder refuses a text string that is not valid UTF-8
	rt.Assert(textsValid(req, false), "C08.cose.emitted.texts.are.valid.utf8")
	// the bytes handed to the signer are the Sig_structure over this message's protected bytes and the request's payload:
	// exactly what a verifier of the emitted message recomputes
	handed := false
	if len(signLog) == 1 {
		msg := e.Envelope.(*envelope).base
		for _, t := range tbsLog {
			if rt.Same(t.out, signLog[0].payload) && rt.Same(t.payload, req.Payload.Content) {
				// the protected bytes are the encoding of the message's protected header as it is now
				p, perr := msg.Headers.MarshalProtected()
				handed = perr == nil && rt.Same(t.protected, p)
			}
		}
	}
	rt.Assert(handed, "C08.cose.signed.bytes.are.the.verified.bytes")
	if tsCalls == 1 && !tsErr {
		rt.Assert(rt.BytesEq(c.SignerInfo.UnsignedAttributes.TimestampSignature, tsToken), "C15.L3.cose.token.embedded")
	} else {
		rt.Assert(len(c.SignerInfo.UnsignedAttributes.TimestampSignature) == 0, "C15.L3.cose.no.token.without.timestamping")
	}
	// extended attributes come back with key, criticality and value
	got := c.SignerInfo.SignedAttributes.ExtendedAttributes
	rt.Assert(len(got) == len(attrs), "C08.cose.attributes.count")
	for _, a := range attrs {
		found := 0
		for _, g := range got {
			if rt.Same(g.Key, a.key) {
				found++
				rt.Assert(g.Critical == a.crit && rt.Same(g.Value, a.val), "C08.cose.attribute.same")
			}
		}
		rt.Assert(found == 1, "C08.cose.attribute.once")
	}
}
