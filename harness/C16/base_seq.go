//go:build verif

// C16 / C20 (base layer, state ACROSS requests) — two operations in one process on the SAME certificate chain: first a
// Content()/Verify() of a parsed envelope or a Sign at time t1, then a Sign at time t2. Package-level state of the code
// under test (a cache of validated chains, a memo of key specs …) survives from the first to the second. The chain
// validation is the summary of C03 with the time rule made explicit (lemma C03.L3 + walk): an uninterpreted verdict
// about the certificates themselves AND the signing time, if one is given, inside the validity period of EVERY
// certificate. Asserted for the second operation: a signing time outside the validity of some certificate of the chain
// gives an error and no bytes, whatever happened before (seeded change S59: a cache of validated chains that remembers
// the LATEST notAfter of the chain).
//verif:pkg signature/internal/base
//verif:harness H_C16_base_seq
//verif:stub github.com/notaryproject/notation-core-go/x509.ValidateCodeSigningCertChain -> sumChainTimed
package base

import (
	"crypto/x509"
	"time"

	rt "github.com/notaryproject/notation-core-go/internal/zzverifrt"
	"github.com/notaryproject/notation-core-go/signature"
)

var seqChain []*x509.Certificate
var seqStructOK bool
var seqStructDecided bool

func within(chain []*x509.Certificate, t time.Time) bool {
	ok := true
	for _, c := range chain {
		ok = rt.And(ok, rt.Not(rt.Or(t.Before(c.NotBefore), t.After(c.NotAfter))))
	}
	return ok
}

func sumChainTimed(chain []*x509.Certificate, t *time.Time) error {
	same := len(chain) == len(seqChain)
	for i := range chain {
		same = same && i < len(seqChain) && chain[i] == seqChain[i]
	}
	if !same {
		rt.Fail("chain validation asked about a chain other than the one in play")
	}
	if !seqStructDecided {
		seqStructDecided = true
		seqStructOK = rt.Choose("chain.structure.ok", 2) == 1
	}
	if !seqStructOK {
		return rt.NewEnvError("chain.structure")
	}
	if t != nil && !within(chain, *t) { // symbolic: forks
		return rt.NewEnvError("chain.time")
	}
	return nil
}

type seqInner struct {
	content *signature.EnvelopeContent
	req     *signature.SignRequest
}

func (f *seqInner) Sign(req *signature.SignRequest) ([]byte, error) {
	f.req = req
	// what the format-specific envelope would report afterwards: the request's content under the signer's chain
	f.content = &signature.EnvelopeContent{
		Payload: req.Payload,
		SignerInfo: signature.SignerInfo{
			Signature: rt.Atom(rt.Name("sig")), SignatureAlgorithm: signature.AlgorithmES256, CertificateChain: seqChain,
			SignedAttributes: signature.SignedAttributes{SigningScheme: req.SigningScheme, SigningTime: req.SigningTime, Expiry: req.Expiry},
		},
	}
	rt.Assume(len(f.content.SignerInfo.Signature) > 0)
	raw := rt.Atom(rt.Name("emitted"))
	rt.Assume(len(raw) > 0)
	return raw, nil
}
func (f *seqInner) Verify() (*signature.EnvelopeContent, error)  { return f.content, nil }
func (f *seqInner) Content() (*signature.EnvelopeContent, error) { return f.content, nil }

type seqSigner struct{}

func (seqSigner) Sign(payload []byte) ([]byte, []*x509.Certificate, error) {
	return nil, nil, rt.NewEnvError("unused")
}
func (seqSigner) KeySpec() (signature.KeySpec, error) {
	return signature.KeySpec{Type: signature.KeyTypeEC, Size: 256}, nil
}

func seqRequest(tag string) *signature.SignRequest {
	return &signature.SignRequest{
		Payload:       signature.Payload{ContentType: "application/x", Content: rt.Atom(tag + ".payload")},
		Signer:        seqSigner{},
		SigningTime:   rt.Time(tag + ".signingTime"),
		SigningScheme: signature.SigningSchemeX509,
	}
}

func H_C16_base_seq() {
	n := 1 + rt.Choose("chainlen", rt.Bound("seq_chain_len_max", 2, 3))
	for i := 0; i < n; i++ {
		d := string(rune('0' + i))
		c := &x509.Certificate{Raw: rt.Atom("raw" + d), NotBefore: rt.Time("notBefore" + d), NotAfter: rt.Time("notAfter" + d)}
		rt.Assume(len(c.Raw) > 0)
		if i == 0 {
			c.PublicKey, _, _ = rt.NondetPublicKey("leaf")
		}
		seqChain = append(seqChain, c)
	}
	// ---- first operation: a parsed envelope is read / verified, or a first request is signed
	switch rt.Choose("first", 3) {
	case 0:
		in := &seqInner{content: &signature.EnvelopeContent{
			Payload: signature.Payload{ContentType: "application/x", Content: rt.Atom("p0")},
			SignerInfo: signature.SignerInfo{Signature: rt.Atom("s0"), SignatureAlgorithm: signature.AlgorithmES256, CertificateChain: seqChain,
				SignedAttributes: signature.SignedAttributes{SigningScheme: signature.SigningSchemeX509, SigningTime: rt.Time("t0")}},
		}}
		e := &Envelope{Envelope: in, Raw: rt.Atom("raw.parsed")}
		if rt.Choose("first.op", 2) == 0 {
			e.Content()
		} else {
			e.Verify()
		}
	case 1:
		(&Envelope{Envelope: &seqInner{}}).Sign(seqRequest("first"))
	}
	// ---- second operation: Sign on a new object, same signer chain, another time
	inner := &seqInner{}
	e := &Envelope{Envelope: inner}
	req := seqRequest("second")
	t2 := req.SigningTime.Truncate(time.Second)
	out, err := e.Sign(req)
	rt.Assert((out == nil) == (err != nil), "C16.seq.bytes.xor.error")
	rt.Assert(rt.Implies(rt.Not(within(seqChain, t2)), err != nil), "C16.seq.chain.invalid.at.the.signing.time.rejected")
	if seqStructDecided {
		rt.Assert(rt.Implies(!seqStructOK, err != nil), "C16.seq.invalid.chain.rejected")
	}
	if err != nil {
		rt.Assert(len(e.Raw) == 0, "C20.seq.failed.sign.leaves.no.signature")
	}
}
