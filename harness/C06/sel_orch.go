//go:build verif

// C06 — runs the orchestration harness of ../C11/orch.go with the C06 assertions as the subject.
//verif:pkg revocation
//verif:include ../C11/orch.go
//verif:harness H_C06_orch
//verif:harness H_C06_orch_long thorough-only
package revocation
