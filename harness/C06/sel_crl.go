//go:build verif

// C06 — fail closed, CRL side: the lemmas of C05 (fetch error, unhonoured freshest-CRL pointer, validation failure,
// entry check failure at any distribution point, in any order).
//verif:pkg revocation/internal/crl
//verif:include ../C05/lemmas.go
//verif:include ../C05/points.go
//verif:harness H_C05_validateCRL
//verif:harness H_C05_points
package crl
