//go:build verif

// C06 — fail closed, fetcher side: every download, parse and cache failure is returned (lemmas of C18).
//verif:pkg revocation/crl
//verif:include ../C18/fetch.go
//verif:include ../C18/download.go
//verif:harness H_C18_fetch
//verif:harness H_C18_download
package crl
