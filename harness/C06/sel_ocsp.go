//go:build verif

// C06 — fail closed, OCSP side: the lemmas of C04 under every fault of the URL, HTTP, read and ASN.1 leaves at once.
//verif:pkg revocation/internal/ocsp
//verif:include ../C04/common_env.go
//verif:include ../C04/l1a_execute.go
//verif:include ../C04/l1b_status.go
//verif:include ../C04/l2_servers.go
//verif:harness H_C04_execute
//verif:harness H_C04_status
//verif:harness H_C04_servers
package ocsp
