//go:build verif

// C03 lemmas — the per-certificate rules, each compared with a declarative restatement (DESIGN.md appendix A.1) for
// arbitrary parsed certificates; the real crypto/x509 CheckSignatureFrom / CheckSignature glue runs, the signature
// primitive is an uninterpreted predicate.
//verif:pkg x509
//verif:harness H_C03_leaf
//verif:harness H_C03_ca
//verif:harness H_C03_time
//verif:harness H_C03_issued
//verif:stub crypto/x509.checkSignature -> rt.StubCheckSignature
package x509

import (
	"crypto/x509"

	rt "github.com/notaryproject/notation-core-go/internal/zzverifrt"
)

const forbiddenKU = x509.KeyUsageKeyEncipherment | x509.KeyUsageDataEncipherment | x509.KeyUsageKeyAgreement | x509.KeyUsageCertSign |
	x509.KeyUsageCRLSign | x509.KeyUsageEncipherOnly | x509.KeyUsageDecipherOnly

func specLeafKU(c *x509.Certificate) bool {
	return rt.And(c.KeyUsage&x509.KeyUsageDigitalSignature != 0, c.KeyUsage&forbiddenKU == 0)
}
func specKeyOK(c *x509.Certificate) bool { return rt.AlgRow(rt.KeyInfo(c.PublicKey)) != 0 }
func specPathOK(c *x509.Certificate, k int) bool {
	present := rt.Or(c.MaxPathLen > 0, rt.And(c.MaxPathLen == 0, c.MaxPathLenZero))
	return rt.Or(rt.Not(present), c.MaxPathLen >= k)
}
func specCSLeaf(c *x509.Certificate) bool {
	ekuOK := true
	for _, e := range c.ExtKeyUsage {
		bad := rt.Or(rt.Or(e == x509.ExtKeyUsageServerAuth, e == x509.ExtKeyUsageClientAuth),
			rt.Or(e == x509.ExtKeyUsageEmailProtection, rt.Or(e == x509.ExtKeyUsageTimeStamping, e == x509.ExtKeyUsageOCSPSigning)))
		ekuOK = rt.And(ekuOK, rt.Not(bad))
	}
	kuPresent, kuCrit := rt.ExtFlags(c.Extensions, 15)
	r := rt.Not(rt.And(c.BasicConstraintsValid, c.IsCA))
	r = rt.And(r, rt.And(kuPresent, kuCrit))
	r = rt.And(r, specLeafKU(c))
	r = rt.And(r, ekuOK)
	return rt.And(r, specKeyOK(c))
}
func specCSCA(c *x509.Certificate, k int) bool {
	kuPresent, kuCrit := rt.ExtFlags(c.Extensions, 15)
	r := rt.And(c.BasicConstraintsValid, c.IsCA)
	r = rt.And(r, specPathOK(c, k))
	r = rt.And(r, rt.And(kuPresent, kuCrit))
	return rt.And(r, c.KeyUsage&x509.KeyUsageCertSign != 0)
}

func H_C03_leaf() {
	rt.ExtMax, rt.EKUMax = rt.Bound("extensions_max", 3, 4), rt.Bound("eku_max", 3, 4)
	c := rt.Havoc[*x509.Certificate]("c")
	rt.Assert(rt.Iff(validateCodeSigningLeafCertificate(c) == nil, specCSLeaf(c)), "C03.L1.leaf")
}

func H_C03_ca() {
	rt.ExtMax = rt.Bound("extensions_max", 3, 4)
	c := rt.Havoc[*x509.Certificate]("c")
	k := rt.Int("expectedPathLen")
	rt.Assert(rt.Iff(validateCodeSigningCACertificate(c, k) == nil, specCSCA(c, k)), "C03.L2.ca")
}

func H_C03_time() {
	c := rt.Havoc[*x509.Certificate]("c")
	t := rt.OptTime("signingTime")
	want := true
	if t != nil {
		want = rt.Not(rt.Or(t.Before(c.NotBefore), t.After(c.NotAfter)))
	}
	rt.Assert(rt.Iff(validateSigningTime(c, t) == nil, want), "C03.L3.time")
}

// L4: isIssuedBy(subject, issuer) is (true, nil) iff the library accepts issuer as signer of subject and the names chain;
// (false, err) exactly when the library rejects.
func H_C03_issued() {
	s := rt.Havoc[*x509.Certificate]("subject")
	p := s
	if rt.Choose("self", 2) == 0 {
		p = rt.Havoc[*x509.Certificate]("issuer")
	}
	ok, err := isIssuedBy(s, p)
	lib := s.CheckSignatureFrom(p)
	rt.Assert((err == nil) == (lib == nil), "C03.L4.err")
	if err == nil {
		rt.Assert(rt.Iff(ok, rt.BytesEq(p.RawSubject, s.RawIssuer)), "C03.L4.names")
		// and the primitive was asked about exactly this certificate's to-be-signed bytes and signature under the issuer's key
		rt.Assert(rt.SigValid(s.RawTBSCertificate, s.Signature, p.PublicKey), "C03.L4.primitive")
	} else {
		rt.Assert(!ok, "C03.L4.false.on.error")
	}
	if p == s {
		ss, serr := isSelfSigned(s)
		rt.Assert(rt.And((serr == nil) == (err == nil), rt.Iff(ss, ok)), "C03.L4.self")
	}
}
