//go:build verif

// C03 walk — ValidateCodeSigningCertChain over chains of 1..3 (thorough 1..4) certificates. The per-certificate rules
// are replaced by summaries justified by the lemmas in lemmas.go: uninterpreted verdicts per (certificate, argument), so
// that a check applied to the wrong position, with the wrong expected path length or not at all shows up as a
// disagreement with the reference, which applies the same verdicts to the right arguments.
//verif:pkg x509
//verif:harness H_C03_walk
//verif:stub crypto/x509.checkSignature -> rt.StubCheckSignature
//verif:summary github.com/notaryproject/notation-core-go/x509.validateCodeSigningLeafCertificate -> sumLeaf
//verif:summary github.com/notaryproject/notation-core-go/x509.validateCodeSigningCACertificate -> sumCA
//verif:summary github.com/notaryproject/notation-core-go/x509.validateSigningTime -> sumTime
//verif:summary github.com/notaryproject/notation-core-go/x509.isIssuedBy -> sumIssuedBy
package x509

import (
	"crypto/x509"
	"time"

	rt "github.com/notaryproject/notation-core-go/internal/zzverifrt"
)

var walkIdx = map[*x509.Certificate]int{}
var walkTime *time.Time
var ufMemo = map[string]bool{}
var issuedMemo = map[string]int{}

func idxName(c *x509.Certificate) string {
	i, ok := walkIdx[c]
	if !ok {
		rt.Fail("summary called with a certificate that is not in the chain")
	}
	return string(rune('0' + i))
}

// uf: one uninterpreted verdict per key.
func uf(key string) bool {
	if v, ok := ufMemo[key]; ok {
		return v
	}
	v := rt.Bool(key)
	ufMemo[key] = v
	return v
}

func verdict(ok bool, tag string) error {
	if ok {
		return nil
	}
	return rt.NewEnvError(tag)
}

func sumLeaf(c *x509.Certificate) error { return verdict(uf("leafOK."+idxName(c)), "leaf") }
func sumCA(c *x509.Certificate, k int) error {
	return verdict(uf("caOK."+idxName(c)+"."+string(rune('a'+k+1))), "ca")
}
func sumTime(c *x509.Certificate, t *time.Time) error {
	if t != walkTime {
		rt.Fail("validateSigningTime called with a time other than the one passed in")
	}
	return verdict(uf("timeOK."+idxName(c)), "time")
}

// issued: 0 = (true, nil), 1 = (false, nil), 2 = (false, err); one verdict per ordered pair.
func issued(s, p *x509.Certificate) int {
	key := idxName(s) + idxName(p)
	if v, ok := issuedMemo[key]; ok {
		return v
	}
	v := rt.Choose("issued."+key, 3)
	// lemma C03.L4 (names): without an error the answer is true exactly when the issuer's subject is the subject's issuer
	// name, byte for byte — part of the summary's post-condition, so that code which looks at the names itself before or
	// instead of asking (a fast path that skips the signature check of a certificate that is not self-issued) agrees
	// with the reference (behaviour-preserving change B3).
	switch v {
	case 0:
		rt.Assume(rt.BytesEq(p.RawSubject, s.RawIssuer))
	case 1:
		rt.Assume(rt.Not(rt.BytesEq(p.RawSubject, s.RawIssuer)))
	}
	issuedMemo[key] = v
	return v
}
func sumIssuedBy(s, p *x509.Certificate) (bool, error) {
	switch issued(s, p) {
	case 0:
		return true, nil
	case 1:
		return false, nil
	}
	return false, rt.NewEnvError("issued")
}

func H_C03_walk() {
	n := 1 + rt.Choose("n", rt.Bound("chain_len_max", 3, 4))
	chain := make([]*x509.Certificate, n)
	for i := range chain {
		chain[i] = rt.Havoc[*x509.Certificate]("c" + string(rune('0'+i)))
		walkIdx[chain[i]] = i
	}
	walkTime = rt.OptTime("signingTime")
	err := ValidateCodeSigningCertChain(chain, walkTime)

	// reference (appendix A.1) over the same verdicts
	want := true
	for i := 0; i < n; i++ {
		want = rt.And(want, uf("timeOK."+string(rune('0'+i))))
	}
	if n == 1 {
		c := chain[0]
		selfSig := rt.SigValid(c.RawTBSCertificate, c.Signature, c.PublicKey)
		want = rt.And(want, rt.And(selfSig, rt.BytesEq(c.RawSubject, c.RawIssuer)))
		want = rt.And(want, uf("leafOK.0"))
	} else {
		want = rt.And(want, issued(chain[n-1], chain[n-1]) == 0)
		for i := 0; i < n-1; i++ {
			want = rt.And(want, issued(chain[i], chain[i]) != 0)
			want = rt.And(want, issued(chain[i], chain[i+1]) == 0)
		}
		want = rt.And(want, uf("leafOK.0"))
		for i := 1; i < n; i++ {
			want = rt.And(want, uf("caOK."+string(rune('0'+i))+"."+string(rune('a'+i))))
		}
	}
	rt.Assert(rt.Iff(err == nil, want), "C03.walk.iff")
	// empty chain
	rt.Assert(ValidateCodeSigningCertChain(nil, walkTime) != nil, "C03.walk.empty")
}
