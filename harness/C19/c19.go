//go:build verif

// C19 — trust is established only by an exact certificate match, leaf-most first.
//verif:pkg signature
//verif:harness H_C19_authenticity
//verif:harness H_C19_signingtime
package signature

import (
	"crypto/x509"
	"time"

	rt "github.com/notaryproject/notation-core-go/internal/zzverifrt"
)

// certs19: n certificates; Raw is an arbitrary byte string (atom), every other field is an independent
// arbitrary value materialised only if the code under test reads it (the "look-alike" quantifier).
func certs19(p string, n int) []*x509.Certificate {
	cs := make([]*x509.Certificate, n)
	for i := range cs {
		cs[i] = rt.Havoc[*x509.Certificate](p + string(rune('0'+i)))
	}
	return cs
}

func H_C19_authenticity() {
	maxN := rt.Bound("chain_len_max", 3, 4)
	maxM := rt.Bound("trust_len_max", 3, 4)
	n := rt.Choose("chain", maxN+1)
	m := rt.Choose("trust", maxM+1)
	chain, trust := certs19("c", n), certs19("t", m)
	info := &SignerInfo{CertificateChain: chain}
	if rt.Choose("nilinfo", 2) == 1 {
		info = nil
	}
	got, err := VerifyAuthenticity(info, trust)
	if m == 0 {
		e, ok := err.(*InvalidArgumentError)
		rt.Assert(ok && e.Param == "trustedCerts" && got == nil, "C19.arg.trust")
		return
	}
	if info == nil {
		e, ok := err.(*InvalidArgumentError)
		rt.Assert(ok && e.Param == "signerInfo" && got == nil, "C19.arg.info")
		return
	}
	// reference: index of the first chain certificate (leaf to root) that is byte-identical to some trusted one
	first := -1
	for i := n - 1; i >= 0; i-- {
		any := false
		for j := 0; j < m; j++ {
			any = rt.Or(any, rt.BytesEq(chain[i].Raw, trust[j].Raw))
		}
		first = rt.IteInt(any, i, first)
	}
	rt.Assert(rt.Iff(err == nil, first >= 0), "C19.iff")
	if err == nil {
		rt.Assert(got != nil, "C19.nonnil")
		if got == nil {
			return
		}
		for i := 0; i < n; i++ {
			rt.Assert(rt.Implies(first == i, rt.BytesEq(got.Raw, chain[i].Raw)), "C19.which")
		}
		inTrust := false
		for j := 0; j < m; j++ {
			inTrust = rt.Or(inTrust, rt.BytesEq(got.Raw, trust[j].Raw))
		}
		rt.Assert(inTrust, "C19.fromtrust")
	} else {
		_, ok := err.(*SignatureAuthenticityError)
		rt.Assert(ok && got == nil, "C19.errtype")
	}
}

func H_C19_signingtime() {
	scheme := SigningScheme(rt.AtomString("scheme"))
	st := rt.Time("signingTime")
	info := &SignerInfo{SignedAttributes: SignedAttributes{SigningScheme: scheme, SigningTime: st}}
	got, err := info.AuthenticSigningTime()
	want := rt.And(rt.StrEq(string(scheme), "notary.x509.signingAuthority"), rt.Not(st.IsZero()))
	rt.Assert(rt.Iff(err == nil, want), "C19.ast.iff")
	if err == nil {
		rt.Assert(got.Equal(st), "C19.ast.value")
	} else {
		rt.Assert(got.Equal(time.Time{}), "C19.ast.zero")
	}
}
