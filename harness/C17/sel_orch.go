//go:build verif

// C17 — runs the orchestration harness of ../C11/orch.go with the C17 assertions as the subject.
//verif:pkg revocation
//verif:include ../C11/orch.go
//verif:harness H_C17_orch
//verif:harness H_C17_orch_long thorough-only
package revocation
