//go:build verif

// C17 — "concurrent checks sharing one validator, HTTP client, CRL fetcher and cache do not interfere with one another or
// race on memory", stated directly: TWO callers run the real ValidateContext at the same time on ONE validator object,
// each with its own chain (2 certificates each by default: one checked certificate + root; the chains are the halves
// [0:k) and [k:n) of one certificate table so that the ghost state of ../C11/orch.go is shared without collisions).
// Every order of the four (two outer, up to two inner per caller) goroutines is explored. Asserted: the executor finds no
// overlapping unsynchronised accesses (RACE), every goroutine has finished when both callers have returned, and each
// caller's results are the decision table applied to ITS OWN certificates' outcomes (non-interference); a panic raised
// in a check of caller A surfaces in A and never in B.
//verif:pkg revocation
//verif:include ../C11/orch.go
//verif:harness H_C17_two_callers
package revocation

import (
	"context"
	"crypto/x509"
	"net/http"
	"sync"

	rt "github.com/notaryproject/notation-core-go/internal/zzverifrt"
	"github.com/notaryproject/notation-core-go/revocation/purpose"
	"github.com/notaryproject/notation-core-go/revocation/result"
)

type callerOut struct {
	res      []*result.CertRevocationResult
	err      error
	pval     any
	panicked bool
}

func H_C17_two_callers() {
	withPanics = true
	lenA := 1 + rt.Choose("lenA", rt.Bound("caller_chain_len_max", 2, 2))
	lenB := 1 + rt.Choose("lenB", rt.Bound("caller_chain_len_max", 2, 2))
	all := buildChain(lenA+lenB, rt.Bound("caller_urls_per_kind_max", 1, 1))
	chA, chB := all[:lenA:lenA], all[lenA:]
	theChain = all
	thePurpose = purpose.Purpose(rt.Choose("purpose", 2))
	theClient, theFetcher, theST = &http.Client{}, nopFetcher{}, rt.Time("signingTime")
	v := &revocation{ocspHTTPClient: theClient, crlFetcher: theFetcher, certChainPurpose: thePurpose}
	before := *v

	var outA, outB callerOut
	var wg sync.WaitGroup
	wg.Add(2)
	call := func(chain []*x509.Certificate, out *callerOut) {
		defer wg.Done()
		out.pval, out.panicked = rt.Panics(func() {
			out.res, out.err = v.ValidateContext(context.Background(), ValidateContextOptions{CertChain: chain, AuthenticSigningTime: theST})
		})
	}
	go call(chA, &outA)
	go call(chB, &outB)
	wg.Wait()

	rt.Assert(rt.Goroutines() == 0, "C17.cc.all.goroutines.finished")
	rt.Assert(v.ocspHTTPClient == before.ocspHTTPClient && v.crlFetcher == before.crlFetcher && v.certChainPurpose == before.certChainPurpose, "C17.cc.validator.unchanged")
	if chainErr != nil {
		// the chain verdict of the summary is shared ghost state: an invalid-chain run says nothing about interference
		return
	}
	judge := func(out *callerOut, lo, hi int, tag string) {
		raised := false
		for i := lo; i < hi; i++ {
			raised = raised || ocspPanic[i] || crlPanic[i]
		}
		rt.Assert(out.panicked == raised, "C17.cc.panic.stays.with.its.caller")
		if out.panicked {
			s, isStr := out.pval.(string)
			one := false
			for i := lo; i < hi; i++ {
				if isStr && ((ocspPanic[i] && s == "boom-ocsp-"+digit(i)) || (crlPanic[i] && s == "boom-crl-"+digit(i))) {
					one = true
				}
			}
			rt.Assert(one && out.res == nil && out.err == nil, "C17.cc.panic.value.is.one.of.its.own")
			return
		}
		n := hi - lo
		rt.Assert(out.err == nil && len(out.res) == n, "C17.cc.results.complete")
		if out.err != nil || len(out.res) != n {
			return
		}
		// positions of the shared table: pad so that certificate i of the table is result i
		padded := make([]*result.CertRevocationResult, lo, hi)
		padded = append(padded, out.res...)
		for i := lo; i < hi; i++ {
			rt.Assert(!exchangeAborted[i], "C17.cc.no.exchange.cancelled.by.the.validator")
			checkTable(all, padded, i, hi)
		}
	}
	judge(&outA, 0, lenA, "A")
	judge(&outB, lenA, lenA+lenB, "B")
}
