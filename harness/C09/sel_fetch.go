//go:build verif

// C09 — CRL fetcher: whatever the servers return; the freshest-CRL value parser on a fully symbolic DER buffer
//verif:pkg revocation/crl
// for the bounded inputs of these harnesses no loop of the code under test runs anywhere near 300 iterations: more is a hang
//verif:terminates github.com/notaryproject/notation-core-go/ 300
//verif:include ../C18/fetch.go
//verif:include ../C18/download.go
//verif:include ../C18/parsedp.go
//verif:harness H_C18_fetch
//verif:harness H_C18_download
//verif:harness H_C18_parsedp
package crl
