//go:build verif

// C09 — CRL fetcher: whatever the servers return; the freshest-CRL value parser on a fully symbolic DER buffer
//verif:pkg revocation/crl
//verif:include ../C18/fetch.go
//verif:include ../C18/download.go
//verif:include ../C18/parsedp.go
//verif:harness H_C18_fetch
//verif:harness H_C18_download
//verif:harness H_C18_parsedp
package crl
