//go:build verif

// C09 — validating any chain of parsed certificates never panics (harnesses of C03/C14; an escaped panic is a violation)
//verif:pkg x509
// for the bounded inputs of these harnesses no loop of the code under test runs anywhere near 300 iterations: more is a hang
//verif:terminates github.com/notaryproject/notation-core-go/ 300
//verif:include ../C03/lemmas.go
//verif:include ../C03/walk.go
//verif:include ../C14/walk.go
//verif:include ../C14/lemmas.go
//verif:harness H_C03_walk
//verif:harness H_C03_issued
//verif:harness H_C03_time
//verif:harness H_C14_walk
package x509
