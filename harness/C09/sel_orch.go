//go:build verif

// C09 — the validator never kills the process from a background goroutine and never blocks: the orchestration harness
// with panicking per-certificate checks (goroutine leak, deadlock and escaped-panic detection of the executor)
//verif:pkg revocation
// for the bounded inputs of these harnesses no loop of the code under test runs anywhere near 300 iterations: more is a hang
//verif:terminates github.com/notaryproject/notation-core-go/ 300
//verif:include ../C11/orch.go
//verif:harness H_C17_orch
package revocation
