//go:build verif

// C09 — the validator never kills the process from a background goroutine and never blocks: the orchestration harness
// with panicking per-certificate checks (goroutine leak, deadlock and escaped-panic detection of the executor)
//verif:pkg revocation
//verif:include ../C11/orch.go
//verif:harness H_C17_orch
package revocation
