//go:build verif

// C09 — OCSP: whatever the responder URL strings and the bytes the servers return (harnesses of C04)
//verif:pkg revocation/internal/ocsp
// for the bounded inputs of these harnesses no loop of the code under test runs anywhere near 300 iterations: more is a hang
//verif:terminates github.com/notaryproject/notation-core-go/ 300
//verif:include ../C04/common_env.go
//verif:include ../C04/l1a_execute.go
//verif:include ../C04/l1b_status.go
//verif:include ../C04/l2_servers.go
//verif:harness H_C04_execute
//verif:harness H_C04_status
//verif:harness H_C04_servers
package ocsp
