//go:build verif

// C09 — signature.ParseEnvelope of ANY byte string with ANY media type, then Verify and Content, for JWS: the registry
// lookup and jws.ParseEnvelope run for real; json.Unmarshal of the bytes gives an error or an arbitrary envelope object
// (the model of the C07/C01 harnesses). No path may end in a panic.
//verif:pkg signature/jws
// for the bounded inputs of these harnesses no loop of the code under test runs anywhere near 300 iterations: more is a hang
//verif:terminates github.com/notaryproject/notation-core-go/ 300
//verif:include ../C07/jws_env.go
//verif:include ../C07/jws_content.go
//verif:harness H_C09_jws_parse
package jws

import (
	rt "github.com/notaryproject/notation-core-go/internal/zzverifrt"
	"github.com/notaryproject/notation-core-go/signature"
)

func H_C09_jws_parse() {
	parseEnvelopeHook = func(data []byte, p *jwsEnvelope) error {
		if rt.Choose("envelope.json.err", 2) == 1 {
			return rt.NewEnvError("json")
		}
		*p = *buildEnvelopeJWS()
		return nil
	}
	raw := rt.Atom("envelope.bytes")
	rawLenJ = len(raw)
	media := rt.AtomString("media.type")
	_, panicked := rt.Panics(func() {
		env, err := signature.ParseEnvelope(media, raw)
		if err != nil {
			rt.Assert(env == nil, "C09.jws.parse.nil.on.error")
			return
		}
		rt.Assert(rt.StrEq(media, "application/jose+json"), "C09.jws.parse.media.type")
		c, verr := env.Verify()
		rt.Assert((c == nil) != (verr == nil), "C09.jws.verify.value.or.error")
	})
	rt.Assert(!panicked, "C09.jws.nopanic")
}
