//go:build verif

// C09 — CRL: whatever the CRLs contain (missing numbers, extensions, entries) (harnesses of C05/C10)
//verif:pkg revocation/internal/crl
// for the bounded inputs of these harnesses no loop of the code under test runs anywhere near 300 iterations: more is a hang
//verif:terminates github.com/notaryproject/notation-core-go/ 300
//verif:include ../C05/lemmas.go
//verif:include ../C05/points.go
//verif:include ../C10/c10.go
//verif:harness H_C05_validate
//verif:harness H_C05_validateCRL
//verif:harness H_C05_points
//verif:harness H_C10_entries thorough-only
package crl
