//go:build verif

//verif:pkg revocation/ocsp
// for the bounded inputs of these harnesses no loop of the code under test runs anywhere near 300 iterations: more is a hang
//verif:terminates github.com/notaryproject/notation-core-go/ 300
//verif:include ../C12/standalone.go
//verif:harness H_C17_standalone
package ocsp
