//go:build verif

//verif:pkg revocation/ocsp
//verif:include ../C12/standalone.go
//verif:harness H_C17_standalone
package ocsp
