//go:build verif

// C09 — reading ANY file as certificates or as a private key terminates with a value or an error and never panics.
// os.ReadFile, pem.Decode and the DER parsers are leaves: pem.Decode returns no block, or a block with an arbitrary type
// and bytes together with a STRICTLY SHORTER rest (its contract); the repo's loop over PEM blocks must make progress
// (each call gets the rest of the previous one) - checked by a ghost measure. Up to pem_blocks_max blocks per file.
//verif:pkg x509
// for the bounded inputs of these harnesses no loop of the code under test runs anywhere near 300 iterations: more is a hang
//verif:terminates github.com/notaryproject/notation-core-go/ 300
//verif:harness H_C09_read_certificates
//verif:harness H_C09_read_private_key
//verif:stub os.ReadFile -> stubReadFile
//verif:stub encoding/pem.Decode -> stubPemDecode
//verif:stub crypto/x509.ParseCertificate -> stubParseCertificate09
//verif:stub crypto/x509.ParseCertificates -> stubParseCertificates09
//verif:stub crypto/x509.ParsePKCS8PrivateKey -> stubParsePKCS8
//verif:stub crypto/x509.ParseECPrivateKey -> stubParseEC
//verif:stub crypto/x509.ParsePKCS1PrivateKey -> stubParsePKCS1
package x509

import (
	"crypto/ecdsa"
	"crypto/rsa"
	"crypto/x509"
	"encoding/pem"

	rt "github.com/notaryproject/notation-core-go/internal/zzverifrt"
)

var fileData []byte
var lastPemInput []byte
var pemCalls, pemBlocks int
var pemMax int

func stubReadFile(name string) ([]byte, error) {
	if rt.Choose("readfile.err", 2) == 1 {
		return nil, rt.NewEnvError("readfile")
	}
	fileData = rt.Atom("file")
	return fileData, nil
}

func stubPemDecode(data []byte) (*pem.Block, []byte) {
	pemCalls++
	// progress: the first call sees the file, every further call the rest returned by the previous one
	if pemCalls == 1 {
		rt.Assert(rt.Same(data, fileData), "C09.pem.first.call.on.file")
	} else {
		rt.Assert(rt.Same(data, lastPemInput), "C09.pem.loop.makes.progress")
	}
	if pemBlocks >= pemMax || rt.Choose(rt.Name("pem.block"), 2) == 0 {
		lastPemInput = data
		return nil, data
	}
	pemBlocks++
	rest := rt.Atom(rt.Name("pem.rest"))
	rt.Assume(len(rest) < len(data)) // a decoded block consumes input
	lastPemInput = rest
	return &pem.Block{Type: rt.AtomString(rt.Name("pem.type")), Bytes: rt.Atom(rt.Name("pem.bytes"))}, rest
}

func stubParseCertificate09(der []byte) (*x509.Certificate, error) {
	if rt.Choose(rt.Name("parsecert.err"), 2) == 1 {
		return nil, rt.NewEnvError("parsecert")
	}
	return rt.Havoc[*x509.Certificate](rt.Name("cert")), nil
}
func stubParseCertificates09(der []byte) ([]*x509.Certificate, error) {
	switch rt.Choose("parsecerts", 3) {
	case 0:
		return nil, rt.NewEnvError("parsecerts")
	case 1:
		return nil, nil
	}
	return []*x509.Certificate{rt.Havoc[*x509.Certificate]("dercert0"), rt.Havoc[*x509.Certificate]("dercert1")}, nil
}
func stubParsePKCS8(der []byte) (any, error) {
	switch rt.Choose("pkcs8", 3) {
	case 0:
		return nil, rt.NewEnvError("pkcs8")
	case 1:
		return &rsa.PrivateKey{}, nil
	}
	return &ecdsa.PrivateKey{}, nil
}
func stubParseEC(der []byte) (*ecdsa.PrivateKey, error) {
	if rt.Choose("ec", 2) == 0 {
		return nil, rt.NewEnvError("ec")
	}
	return &ecdsa.PrivateKey{}, nil
}
func stubParsePKCS1(der []byte) (*rsa.PrivateKey, error) {
	if rt.Choose("pkcs1", 2) == 0 {
		return nil, rt.NewEnvError("pkcs1")
	}
	return &rsa.PrivateKey{}, nil
}

func H_C09_read_certificates() {
	pemMax = rt.Bound("pem_blocks_max", 3, 5)
	var certs []*x509.Certificate
	var err error
	_, panicked := rt.Panics(func() { certs, err = ReadCertificateFile(rt.AtomString("path")) })
	rt.Assert(!panicked, "C09.read.certificates.nopanic")
	if err != nil {
		rt.Assert(certs == nil, "C09.read.certificates.nil.on.error")
	} else {
		for _, c := range certs {
			rt.Assert(c != nil, "C09.read.certificates.nonnil")
		}
	}
}

func H_C09_read_private_key() {
	pemMax = 1
	_, panicked := rt.Panics(func() {
		k, err := ReadPrivateKeyFile(rt.AtomString("path"))
		rt.Assert(err != nil || k != nil, "C09.read.key.value.or.error")
	})
	rt.Assert(!panicked, "C09.read.key.nopanic")
}
