//go:build verif

// C09 — signature.ParseEnvelope of ANY byte string with ANY media type, then Verify and Content, for COSE: the registry
// lookup and cose.ParseEnvelope run for real; go-cose's Sign1Message.UnmarshalCBOR gives an error or an arbitrary message
// object (the model of the C07/C01 harnesses, arbitrary unprotected bucket, payload possibly nil). No path may panic.
//verif:pkg signature/cose
// for the bounded inputs of these harnesses no loop of the code under test runs anywhere near 300 iterations: more is a hang
//verif:terminates github.com/notaryproject/notation-core-go/ 300
//verif:include ../C07/cose_env.go
//verif:include ../C07/cose_content.go
//verif:harness H_C09_cose_parse
//verif:stub (*github.com/veraison/go-cose.Sign1Message).UnmarshalCBOR -> stubUnmarshalMessage
package cose

import (
	gocose "github.com/veraison/go-cose"

	rt "github.com/notaryproject/notation-core-go/internal/zzverifrt"
	"github.com/notaryproject/notation-core-go/signature"
)

func stubUnmarshalMessage(m *gocose.Sign1Message, data []byte) error {
	if rt.Choose("envelope.cbor.err", 2) == 1 {
		return rt.NewEnvError("cbor")
	}
	focusHeaders = rt.Choose("arbitrary.protected.bucket", 2) == 1
	*m = *buildMessage(true)
	// a parsed message carries the protected bucket as it was on the wire: at least one byte
	rt.Assume(len(m.Headers.RawProtected) > 0)
	return nil
}

func H_C09_cose_parse() {
	raw := rt.Atom("envelope.bytes")
	rawLen = len(raw)
	media := rt.AtomString("media.type")
	_, panicked := rt.Panics(func() {
		env, err := signature.ParseEnvelope(media, raw)
		if err != nil {
			rt.Assert(env == nil, "C09.cose.parse.nil.on.error")
			return
		}
		rt.Assert(rt.StrEq(media, "application/cose"), "C09.cose.parse.media.type")
		c, verr := env.Verify()
		rt.Assert((c == nil) != (verr == nil), "C09.cose.verify.value.or.error")
	})
	rt.Assert(!panicked, "C09.cose.nopanic")
}
