//go:build verif

// C08 — "the produced envelope parses and verifies", COSE side: the verify harness of ../C07/cose_verify.go
//verif:pkg signature/cose
//verif:include ../C07/cose_env.go
//verif:include ../C07/cose_content.go
//verif:include ../C07/cose_verify.go
//verif:harness H_C01_cose_verify
package cose
