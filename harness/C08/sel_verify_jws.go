//go:build verif

// C08 — "the produced envelope parses and verifies": whatever object the parser yields (in particular the one a successful
// Sign emitted), a valid signature by the leaf key over its protected+payload is accepted and the content is the decoding
// of those fields: the verify harness of ../C07/jws_verify.go (both directions)
//verif:pkg signature/jws
//verif:include ../C07/jws_env.go
//verif:include ../C07/jws_content.go
//verif:include ../C07/jws_verify.go
//verif:harness H_C01_jws_verify
package jws
