//go:build verif

// C08 — jws: the C08.* assertions of ../C16/jws_sign.go (Sign, then the object's content against the request; the bytes
// handed to the signer against the bytes a verifier recomputes)
//verif:pkg signature/jws
//verif:include ../C16/jws_sign_env.go
//verif:include ../C16/jws_sign.go
//verif:harness H_C16_jws_sign_attrs
//verif:harness H_C16_jws_sign_signer
//verif:harness H_C08_jws_sign_fold
package jws
