//go:build verif

// C08 (JWS) — the sign harness once more with zones: the request's signing time and expiry lie in locations with
// arbitrary offsets; RFC 3339 (time.Time.MarshalJSON) writes offsets in whole minutes and years 0..9999 only.
//verif:pkg signature/jws
//verif:include ../C16/jws_sign_env.go
//verif:include ../C16/jws_sign.go
//verif:harness H_C08_jws_sign_zones
package jws

func H_C08_jws_sign_zones() {
	focusS = 5 // no attributes, well-behaved remote signer, no faults: every valid request must be signed
	zonesModelS = true
	signJWS()
}
