//go:build verif

// C08 — cose: the C08.* assertions of ../C16/cose_sign.go (Sign, then the object's content against the request; the bytes
// handed to the signer against the bytes a verifier recomputes)
//verif:pkg signature/cose
//verif:include ../C16/cose_sign_env.go
//verif:include ../C16/cose_sign.go
//verif:harness H_C16_cose_sign_attrs
//verif:harness H_C16_cose_sign_signer
package cose
