//go:build verif

// C08 (JWS) — the sign harness once more with the JSON number model switched on: an integer attribute value is written
// exactly by json.Marshal and read back by json.Unmarshal into interface{} as float64; "the verified content equals the
// request" then needs the integer to be exactly representable as a float64.
//verif:pkg signature/jws
//verif:include ../C16/jws_sign_env.go
//verif:include ../C16/jws_sign.go
//verif:harness H_C08_jws_sign_numbers
package jws

func H_C08_jws_sign_numbers() {
	focusS = 3 // at most one attribute, well-behaved remote signer, late faults possible
	numbersModelS = true
	signJWS()
}
