//go:build verif

// C01 — JWS side (harness in ../C07/jws_verify.go)
//verif:pkg signature/jws
//verif:include ../C07/jws_env.go
//verif:include ../C07/jws_content.go
//verif:include ../C07/jws_verify.go
//verif:harness H_C01_jws_verify
//verif:harness H_C01_jws_verify_fold
//verif:harness H_C01_jws_verify_after
package jws
