//go:build verif

// C01 — COSE side (harness in ../C07/cose_verify.go)
//verif:pkg signature/cose
//verif:include ../C07/cose_env.go
//verif:include ../C07/cose_content.go
//verif:include ../C07/cose_verify.go
//verif:harness H_C01_cose_verify
//verif:harness H_C01_cose_verify_after
//verif:harness H_C01_cose_verify_headers thorough-only
package cose
