//go:build verif

// C05 L3 — CertCheckStatus over 1..2 (thorough 1..3) distribution points with validate (lemma L2) and checkRevocation
// (lemma C10) summarised. Reference: OK only if every point was fetched, honoured a freshest-CRL pointer of the
// certificate, validated and did not list the certificate; the first failing point gives a single Unknown entry naming
// that URL; a listing before any failure gives a single Revoked entry.
//verif:pkg revocation/internal/crl
//verif:harness H_C05_points
//verif:summary github.com/notaryproject/notation-core-go/revocation/internal/crl.validate -> sumValidate
//verif:summary github.com/notaryproject/notation-core-go/revocation/internal/crl.checkRevocation -> sumCheckRevocation
package crl

import (
	"context"
	"crypto/x509"
	"time"

	rt "github.com/notaryproject/notation-core-go/internal/zzverifrt"
	"github.com/notaryproject/notation-core-go/revocation/crl"
	"github.com/notaryproject/notation-core-go/revocation/result"
)

type pointRec struct {
	url       string
	fetched   bool
	fetchErr  bool
	bundle    *crl.Bundle
	validated bool
	valErr    bool
	checked   bool
	chkKind   int // 0 OK, 1 Revoked, 2 error
	res       *result.ServerResult
}

var points []*pointRec
var theIssuer, theCert *x509.Certificate
var theSigningTime time.Time

type envFetcher struct{}

func (envFetcher) Fetch(ctx context.Context, url string) (*crl.Bundle, error) {
	p := &pointRec{url: url, fetched: true}
	points = append(points, p)
	switch rt.Choose(rt.Name("fetch"), 3) {
	case 0:
		p.fetchErr = true
		return nil, rt.NewEnvError("fetch")
	case 1:
		p.bundle = &crl.Bundle{BaseCRL: &x509.RevocationList{}}
	default:
		p.bundle = &crl.Bundle{BaseCRL: &x509.RevocationList{}, DeltaCRL: &x509.RevocationList{}}
	}
	return p.bundle, nil
}

func recFor(b *crl.Bundle) *pointRec {
	for _, p := range points {
		if p.bundle == b {
			return p
		}
	}
	rt.Fail("summary called with a bundle the fetcher did not return")
	return nil
}

func sumValidate(b *crl.Bundle, issuer *x509.Certificate) error {
	p := recFor(b)
	rt.Assert(issuer == theIssuer, "C05.L3.validate.issuer")
	p.validated = true
	if rt.Choose(rt.Name("validate"), 2) == 1 {
		p.valErr = true
		return rt.NewEnvError("validate")
	}
	return nil
}

func sumCheckRevocation(cert *x509.Certificate, b *crl.Bundle, st time.Time, url string) (*result.ServerResult, error) {
	p := recFor(b)
	rt.Assert(cert == theCert && rt.StrEq(url, p.url) && st.Equal(theSigningTime), "C05.L3.check.args")
	rt.Assert(p.validated && !p.valErr, "C05.L3.check.after.validate")
	p.checked = true
	p.chkKind = rt.Choose(rt.Name("check"), 3)
	switch p.chkKind {
	case 0:
		p.res = &result.ServerResult{Result: result.ResultOK, Server: url, RevocationMethod: result.RevocationMethodCRL}
	case 1:
		p.res = &result.ServerResult{Result: result.ResultRevoked, Server: url, RevocationMethod: result.RevocationMethodCRL}
	default:
		return nil, rt.NewEnvError("check")
	}
	return p.res, nil
}

func H_C05_points() {
	n := 1 + rt.Choose("points", rt.Bound("distribution_points_max", 2, 3))
	rt.ExtMax = 2
	cert := rt.Havoc[*x509.Certificate]("cert")
	cert.CRLDistributionPoints = nil
	for i := 0; i < n; i++ {
		cert.CRLDistributionPoints = append(cert.CRLDistributionPoints, rt.AtomString("dp"+string(rune('0'+i))))
	}
	issuer := rt.Havoc[*x509.Certificate]("issuer")
	theCert, theIssuer, theSigningTime = cert, issuer, rt.Time("signingTime")
	r := CertCheckStatus(rt.EnvContext{Tag: "caller"}, cert, issuer, CertCheckStatusOptions{Fetcher: envFetcher{}, SigningTime: theSigningTime})

	hasFreshest, _ := rt.ExtFlags(cert.Extensions, 46)
	rt.Assert(r != nil && r.RevocationMethod == result.RevocationMethodCRL, "C05.L3.method")
	// walk the points in order, as the property reads
	decided := false
	for i := 0; i < n && !decided; i++ {
		if i >= len(points) {
			rt.Assert(false, "C05.L3.every.point.consulted")
			return
		}
		p := points[i]
		rt.Assert(rt.StrEq(p.url, cert.CRLDistributionPoints[i]), "C05.L3.order")
		failed := p.fetchErr
		if !failed {
			unhonoured := rt.And(hasFreshest, p.bundle.DeltaCRL == nil)
			if unhonoured { // symbolic: forks here, after the code under test has run
				failed = true
			} else {
				rt.Assert(p.validated, "C05.L3.validated")
				failed = p.valErr || (p.checked && p.chkKind == 2)
				if !failed {
					rt.Assert(p.checked, "C05.L3.checked")
				}
			}
		}
		switch {
		case failed:
			decided = true
			rt.Assert(r.Result == result.ResultUnknown, "C05.L3.fail.unknown")
			rt.Assert(len(r.ServerResults) == 1, "C05.L3.fail.single")
			if len(r.ServerResults) == 1 {
				s := r.ServerResults[0]
				rt.Assert(s.Result == result.ResultUnknown && s.Error != nil && s.RevocationMethod == result.RevocationMethodCRL && rt.StrEq(s.Server, p.url), "C05.L3.fail.entry")
			}
			rt.Assert(len(points) == i+1, "C05.L3.fail.stops")
		case p.chkKind == 1:
			decided = true
			rt.Assert(r.Result == result.ResultRevoked && len(r.ServerResults) == 1 && r.ServerResults[0] == p.res, "C05.L3.revoked")
			rt.Assert(len(points) == i+1, "C05.L3.revoked.stops")
		}
	}
	if !decided {
		rt.Assert(r.Result == result.ResultOK && len(points) == n, "C05.L3.ok")
		rt.Assert(len(r.ServerResults) == n, "C05.L3.ok.len")
		if len(r.ServerResults) == n {
			for i := 0; i < n; i++ {
				rt.Assert(r.ServerResults[i] == points[i].res && points[i].chkKind == 0, "C05.L3.ok.entries")
			}
		}
	}
	// OK never together with a failure
	if r.Result == result.ResultOK {
		for _, p := range points {
			rt.Assert(!p.fetchErr && !p.valErr && p.checked && p.chkKind == 0, "C05.L3.ok.clean")
		}
	}
}

// fetcher nil and no distribution points
//verif:harness H_C05_edge
func H_C05_edge() {
	cert := rt.Havoc[*x509.Certificate]("cert")
	issuer := rt.Havoc[*x509.Certificate]("issuer")
	if rt.Choose("nodp", 2) == 1 {
		cert.CRLDistributionPoints = nil
		r := CertCheckStatus(rt.EnvContext{Tag: "caller"}, cert, issuer, CertCheckStatusOptions{Fetcher: envFetcher{}})
		rt.Assert(r.Result == result.ResultNonRevokable && len(points) == 0, "C05.edge.nodp")
		return
	}
	cert.CRLDistributionPoints = []string{rt.AtomString("dp0")}
	r := CertCheckStatus(rt.EnvContext{Tag: "caller"}, cert, issuer, CertCheckStatusOptions{})
	rt.Assert(r.Result == result.ResultUnknown && len(r.ServerResults) == 1 && r.ServerResults[0].Result == result.ResultUnknown && r.ServerResults[0].Error != nil, "C05.edge.nofetcher")
}
