//go:build verif

// C05 lemmas.
//   L1 validateCRL(crl, issuer) == nil  <=>  the issuer may sign CRLs and the signature primitive accepts (tbs, sig) under the
//      issuer's key, NextUpdate is present and not passed at the instant observed, and no critical extension other than
//      issuing-distribution-point (2.5.29.28) and delta-CRL-indicator (2.5.29.27) is present.
//   L2 validate(bundle, issuer): L1 for base; with a delta: L1 for the delta, delta number > base number, indicator present,
//      parsable and <= base number. CRL numbers may be absent (nil), which must yield an error, never a panic.
//verif:pkg revocation/internal/crl
//verif:harness H_C05_validateCRL
//verif:harness H_C05_validate
//verif:stub crypto/x509.checkSignature -> rt.StubCheckSignature
//verif:stub time.Now -> stubNow
//verif:stub (*golang.org/x/crypto/cryptobyte.String).ReadASN1Integer -> stubReadASN1Integer
package crl

import (
	"crypto/x509"
	"math/big"
	"time"

	"golang.org/x/crypto/cryptobyte"

	rt "github.com/notaryproject/notation-core-go/internal/zzverifrt"
	"github.com/notaryproject/notation-core-go/revocation/crl"
)

var nowLog []time.Time

func stubNow() time.Time {
	t := rt.Time(rt.Name("now"))
	nowLog = append(nowLog, t)
	return t
}

var indicatorOK bool
var indicatorVal uint64
var indicatorCalls int

// the delta indicator value is whatever the DER says: parse failure, or any natural number
func stubReadASN1Integer(s *cryptobyte.String, out any) bool {
	indicatorCalls++
	indicatorOK = rt.Bool("indicator.parses")
	indicatorVal = rt.Uint64("indicator.value")
	if indicatorOK {
		rt.BigSet(out.(*big.Int), indicatorVal)
	}
	return indicatorOK
}

func specCRL(c *x509.RevocationList, issuer *x509.Certificate, now time.Time) bool {
	badCrit := false
	for _, e := range c.Extensions {
		other := rt.Not(rt.Or(e.Id.Equal([]int{2, 5, 29, 28}), e.Id.Equal([]int{2, 5, 29, 27})))
		badCrit = rt.Or(badCrit, rt.And(other, e.Critical))
	}
	r := rt.SigValid(c.RawTBSRevocationList, c.Signature, issuer.PublicKey)
	r = rt.And(r, rt.Not(c.NextUpdate.IsZero()))
	r = rt.And(r, rt.Not(now.After(c.NextUpdate)))
	return rt.And(r, rt.Not(badCrit))
}

func H_C05_validateCRL() {
	rt.ExtMax = rt.Bound("crl_extensions_max", 2, 3)
	c := rt.Havoc[*x509.RevocationList]("crl")
	issuer := rt.Havoc[*x509.Certificate]("issuer")
	err := validateCRL(c, issuer)
	lib := c.CheckSignatureFrom(issuer) // the library's own rule for "issuer may sign CRLs" + the (memoised) primitive
	if err == nil {
		rt.Assert(lib == nil, "C05.L1.issuer")
		rt.Assert(len(nowLog) == 1, "C05.L1.clock")
		if len(nowLog) == 1 {
			rt.Assert(specCRL(c, issuer, nowLog[0]), "C05.L1.accept")
		}
	} else if lib == nil && len(nowLog) == 1 {
		rt.Assert(rt.Not(specCRL(c, issuer, nowLog[0])), "C05.L1.reject")
	} else if lib == nil {
		// rejected before the clock was read: NextUpdate must be absent
		rt.Assert(c.NextUpdate.IsZero(), "C05.L1.reject.early")
	}
}

// ---- L2 with validateCRL summarised by an uninterpreted verdict per CRL object
func H_C05_validate() {
	// real validateCRL inside validate: the composition (which CRL is checked against which issuer)
	rt.ExtMax = 1
	base := rt.Havoc[*x509.RevocationList]("base")
	issuer := rt.Havoc[*x509.Certificate]("issuer")
	b := &crl.Bundle{BaseCRL: base}
	var delta *x509.RevocationList
	if rt.Choose("hasDelta", 2) == 1 {
		delta = rt.Havoc[*x509.RevocationList]("delta")
		b.DeltaCRL = delta
		delta.Number, base.Number = optBig("delta.number"), optBig("base.number")
	}
	_, panicked := rt.Panics(func() {
		err := validate(b, issuer)
		if err == nil {
			rt.Assert(len(nowLog) >= 1 && specCRL(base, issuer, nowLog[0]), "C05.L2.base")
			if delta != nil {
				rt.Assert(len(nowLog) == 2 && specCRL(delta, issuer, nowLog[1]), "C05.L2.delta")
				rt.Assert(delta.Number != nil && base.Number != nil, "C05.L2.numbers.present")
				if delta.Number != nil && base.Number != nil {
					rt.Assert(rt.BigLess(base.Number, delta.Number), "C05.L2.delta.newer")
					hasInd, _ := rt.ExtFlags(delta.Extensions, 27)
					rt.Assert(rt.And(hasInd, rt.And(indicatorOK, rt.Not(rt.BigLess(base.Number, rt.BigOf(indicatorVal))))), "C05.L2.indicator")
				}
			}
		}
	})
	rt.AssertKnown(!panicked, "C05.L2.nopanic", "F3", delta != nil && (delta.Number == nil || base.Number == nil))
}

func optBig(name string) *big.Int {
	if rt.Choose(name+".absent", 2) == 1 {
		return nil
	}
	return rt.Big(name)
}
