//go:build verif

// C04 L1b — checkStatusFromServer with executeOCSPCheck summarised (lemma L1a): URL handling, expiry, status and
// invalidity-date logic. Panic freedom for every responder URL string (C09) is asserted here as well.
//verif:pkg revocation/internal/ocsp
//verif:harness H_C04_status
//verif:summary github.com/notaryproject/notation-core-go/revocation/internal/ocsp.executeOCSPCheck -> sumExecute
package ocsp

import (
	"context"
	"crypto/x509"
	"crypto/x509/pkix"
	"encoding/asn1"
	"net/http"

	rt "github.com/notaryproject/notation-core-go/internal/zzverifrt"
	"github.com/notaryproject/notation-core-go/revocation/result"
	xocsp "golang.org/x/crypto/ocsp"
)

var execCalls int
var execResp *xocsp.Response
var execErrKind int
var execArgsOK bool
var l1bCert, l1bIssuer *x509.Certificate
var l1bServer string
var respExtKinds []int // per single extension: 0 invalidity date, 1 ocsp-nocheck, 2 other

// contract of L1a: an authentic response for the certificate's serial with arbitrary status, times and non-critical
// single extensions, or an error that is not one of the three status errors.
func sumExecute(ctx context.Context, cert, issuer *x509.Certificate, server string, opts CertCheckStatusOptions) (*xocsp.Response, error) {
	execCalls++
	execArgsOK = cert == l1bCert && issuer == l1bIssuer && rt.StrEq(server, l1bServer)
	execErrKind = rt.Choose("exec.outcome", 4)
	switch execErrKind {
	case 1:
		return nil, GenericError{Err: rt.NewEnvError("generic")}
	case 2:
		return nil, TimeoutError{}
	case 3:
		return nil, rt.NewEnvError("other")
	}
	r := &xocsp.Response{Status: rt.Int("resp.status"), NextUpdate: rt.Time("resp.nextUpdate"), ThisUpdate: rt.Time("resp.thisUpdate"), SerialNumber: cert.SerialNumber}
	n := rt.Choose("resp.next", 3)
	for i := 0; i < n; i++ {
		k := rt.Choose("resp.ext"+string(rune('0'+i))+".kind", 3)
		id := asn1.ObjectIdentifier{1, 2, 3}
		switch k {
		case 0:
			id = asn1.ObjectIdentifier{2, 5, 29, 24}
		case 1:
			id = asn1.ObjectIdentifier{1, 3, 6, 1, 5, 5, 7, 48, 1, 5}
		}
		respExtKinds = append(respExtKinds, k)
		r.Extensions = append(r.Extensions, pkix.Extension{Id: id, Value: rt.Atom("resp.ext" + string(rune('0'+i)) + ".value")})
	}
	execResp = r
	return r, nil
}

func H_C04_status() {
	cert := rt.Havoc[*x509.Certificate]("cert")
	issuer := rt.Havoc[*x509.Certificate]("issuer")
	l1bCert, l1bIssuer, l1bServer = cert, issuer, rt.AtomString("server")
	st := rt.TimeAnyLoc("signingTime")
	opts := CertCheckStatusOptions{HTTPClient: &http.Client{}, SigningTime: st}
	var r *result.ServerResult
	_, panicked := rt.Panics(func() { r = checkStatusFromServer(rt.EnvContext{Tag: "caller"}, cert, issuer, l1bServer, opts) })
	rt.AssertKnown(!panicked, "C04.L1b.nopanic", "F2", execCalls == 0)
	if panicked {
		return
	}
	rt.Assert(r != nil, "C04.L1b.nonnil")
	rt.Assert(rt.And(rt.StrEq(r.Server, l1bServer), r.RevocationMethod == result.RevocationMethodOCSP), "C04.L1b.shape")
	rt.Assert((r.Result == result.ResultOK) == (r.Error == nil), "C04.L1b.ok.iff.noerror")
	rt.Assert(r.Result != result.ResultNonRevokable, "C04.L1b.never.nonrevokable")
	decisive := r.Result == result.ResultOK || r.Result == result.ResultRevoked
	if _, isUnk := r.Error.(UnknownStatusError); isUnk {
		decisive = true
	}
	if !decisive {
		return
	}
	// a decisive answer needs an http responder and a response from L1a, asked about this certificate
	rt.Assert(equalFoldCalls == 1 && schemeIsHTTP, "C04.L1b.http.only")
	rt.Assert(execCalls == 1 && execArgsOK && execErrKind == 0 && execResp != nil, "C04.L1b.from.response")
	if execResp == nil || len(nowLog) != 1 {
		rt.Assert(false, "C04.L1b.clock")
		return
	}
	resp := execResp
	rt.Assert(rt.Not(nowLog[0].After(resp.NextUpdate)), "C04.L1b.current")
	// invalidity-date extensions among the single extensions
	nInv := 0
	for _, k := range respExtKinds {
		if k == 0 {
			nInv++
		}
	}
	isGood, isRevoked := resp.Status == xocsp.Good, resp.Status == xocsp.Revoked
	exempt := false
	if nInv == 1 {
		// well-formed invalidity date after a non-zero signing time
		if invOutcome == 0 {
			exempt = rt.And(isRevoked, rt.And(rt.Not(st.IsZero()), st.Before(invParsed)))
		}
	}
	if nInv >= 2 {
		return // two invalidity dates: which one governs is an open case
	}
	if nInv == 0 {
		rt.Assert(invOutcome == -1, "C04.L1b.no.invdate.parse")
	}
	switch r.Result {
	case result.ResultOK:
		rt.Assert(rt.Or(isGood, exempt), "C04.L1b.ok.needs.good")
	case result.ResultRevoked:
		rt.Assert(rt.And(isRevoked, rt.Not(exempt)), "C04.L1b.revoked")
		_, isRev := r.Error.(RevokedError)
		rt.Assert(isRev, "C04.L1b.revoked.error")
	default:
		rt.Assert(rt.And(rt.Not(isGood), rt.Not(isRevoked)), "C04.L1b.unknown.status")
	}
}
