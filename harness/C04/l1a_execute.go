//go:build verif

// C04 L1a — executeOCSPCheck with the REAL x/crypto/ocsp.ParseResponseForCert (everything after its asn1.Unmarshal
// leaves), Response.CheckSignatureFrom, x509.Certificate.CheckSignature and errors.As / url.Error.Timeout.
// A response is handed back only if it came over HTTP 200 through the 20480-byte limiter, was built for (cert, issuer),
// carries the certificate's serial, and was signed by the issuer's key or by an embedded certificate that the issuer
// issued AND authorised for OCSP signing.
//verif:pkg revocation/internal/ocsp
//verif:harness H_C04_execute
package ocsp

import (
	"crypto/x509"
	"net/http"

	rt "github.com/notaryproject/notation-core-go/internal/zzverifrt"
)

func H_C04_execute() {
	rt.EKUMax = 2
	cert := rt.Havoc[*x509.Certificate]("cert")
	issuer := rt.Havoc[*x509.Certificate]("issuer")
	server := rt.AtomString("server")
	opts := CertCheckStatusOptions{HTTPClient: &http.Client{}, SigningTime: rt.Time("st")}
	resp, err := executeOCSPCheck(rt.EnvContext{Tag: "caller"}, cert, issuer, server, opts)
	if err != nil {
		rt.Assert(resp == nil, "C04.L1a.err.noresp")
		// the error class decides the verdict later: it must never be one of the three "status" errors
		switch err.(type) {
		case RevokedError, NoServerError, UnknownStatusError:
			rt.Assert(false, "C04.L1a.err.class")
		}
		if _, isTimeout := err.(TimeoutError); isTimeout {
			rt.Assert(doCalls == 1 && !gotResponse, "C04.L1a.timeout.class")
		}
		return
	}
	rt.Assert(resp != nil, "C04.L1a.nonnil")
	rt.Assert(createdCalls == 1 && createdFor[0] == cert && createdFor[1] == issuer, "C04.L1a.request.for.cert")
	rt.Assert(doCalls == 1 && gotResponse && httpStatus == 200, "C04.L1a.http200")
	rt.Assert(readCalls == 1 && !unbounded && readLimit == 20480, "C04.L1a.limited.read")
	// GET iff both encoded lengths are below 255, else POST with the request as body
	small := rt.And((len(reqBytes)+2)/3*4 < 255, escapedLen < 255)
	if doMethod == "GET" {
		rt.Assert(small, "C04.L1a.get.only.if.small")
		rt.Assert(rt.And(!doHasBody, rt.And(rt.StrEq(doURL, joined), rt.And(rt.StrEq(joinedFrom[0], server), rt.StrEq(joinedFrom[1], escaped)))), "C04.L1a.get.url")
	} else {
		rt.Assert(doMethod == "POST", "C04.L1a.method")
		rt.Assert(rt.Not(small), "C04.L1a.post.only.if.large")
		rt.Assert(rt.And(doHasBody, rt.StrEq(doURL, server)), "C04.L1a.post.url")
	}
	rt.Assert(rt.BigEq(resp.SerialNumber, cert.SerialNumber), "C04.L1a.serial")
	// authenticity
	authentic := false
	if embedded == nil || resp.Certificate == nil {
		rt.Assert(resp.Certificate == nil && parseCalls == 0, "C04.L1a.noembedded")
		authentic = rt.SigValid(resp.TBSResponseData, resp.Signature, issuer.PublicKey)
	} else {
		rt.Assert(resp.Certificate == embedded, "C04.L1a.embedded")
		d := embedded
		hasOCSPSigning := false
		for _, e := range d.ExtKeyUsage {
			hasOCSPSigning = rt.Or(hasOCSPSigning, e == x509.ExtKeyUsageOCSPSigning)
		}
		authorised := rt.Or(rt.BytesEq(d.Raw, issuer.Raw), hasOCSPSigning)
		authentic = rt.And(rt.SigValid(resp.TBSResponseData, resp.Signature, d.PublicKey),
			rt.And(rt.SigValid(d.RawTBSCertificate, d.Signature, issuer.PublicKey), authorised))
		rt.Note("embedded responder certificate present")
	}
	rt.AssertKnown(authentic, "C04.L1a.authentic.signer", "F1", embedded != nil)
}
