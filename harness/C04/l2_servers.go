//go:build verif

// C04 L2 — CertCheckStatus over 1..2 (thorough 1..3) responders with checkStatusFromServer summarised (lemma L1b):
// the first decisive answer (OK, Revoked, or an authentic Unknown status) decides and is the only entry; otherwise one
// Unknown entry per responder, in order.
//verif:pkg revocation/internal/ocsp
//verif:harness H_C04_servers
//verif:summary github.com/notaryproject/notation-core-go/revocation/internal/ocsp.checkStatusFromServer -> sumServer
package ocsp

import (
	"context"
	"crypto/x509"
	"net/http"

	rt "github.com/notaryproject/notation-core-go/internal/zzverifrt"
	"github.com/notaryproject/notation-core-go/revocation/result"
)

type srvRec struct {
	server string
	kind   int // 0 OK, 1 Revoked, 2 Unknown status (decisive), 3 Unknown other
	res    *result.ServerResult
}

var srvLog []srvRec
var l2Cert, l2Issuer *x509.Certificate

func sumServer(ctx context.Context, cert, issuer *x509.Certificate, server string, opts CertCheckStatusOptions) *result.ServerResult {
	rt.Assert(cert == l2Cert && issuer == l2Issuer, "C04.L2.args")
	k := rt.Choose(rt.Name("server.outcome"), 5)
	var r *result.ServerResult
	switch k {
	case 0:
		r = toServerResult(server, nil)
	case 1:
		r = toServerResult(server, RevokedError{})
	case 2:
		r = toServerResult(server, UnknownStatusError{})
	case 3:
		r = toServerResult(server, GenericError{Err: rt.NewEnvError("generic")})
	default:
		r = toServerResult(server, TimeoutError{})
		k = 3
	}
	srvLog = append(srvLog, srvRec{server, k, r})
	return r
}

func H_C04_servers() {
	n := 1 + rt.Choose("servers", rt.Bound("responders_max", 2, 3))
	cert := rt.Havoc[*x509.Certificate]("cert")
	cert.OCSPServer = nil
	for i := 0; i < n; i++ {
		cert.OCSPServer = append(cert.OCSPServer, rt.AtomString("ocsp"+string(rune('0'+i))))
	}
	issuer := rt.Havoc[*x509.Certificate]("issuer")
	l2Cert, l2Issuer = cert, issuer
	r := CertCheckStatus(rt.EnvContext{Tag: "caller"}, cert, issuer, CertCheckStatusOptions{HTTPClient: &http.Client{}})
	rt.Assert(r != nil && r.RevocationMethod == result.RevocationMethodOCSP, "C04.L2.method")
	for i, s := range srvLog {
		rt.Assert(rt.StrEq(s.server, cert.OCSPServer[i]), "C04.L2.order")
	}
	last := srvLog[len(srvLog)-1]
	if last.kind <= 2 {
		// decisive: only entry, verdict follows it, no later responder asked
		rt.Assert(len(r.ServerResults) == 1 && r.ServerResults[0] == last.res && r.Result == last.res.Result, "C04.L2.decisive")
		for _, s := range srvLog[:len(srvLog)-1] {
			rt.Assert(s.kind == 3, "C04.L2.decisive.first")
		}
	} else {
		rt.Assert(len(srvLog) == n && r.Result == result.ResultUnknown && len(r.ServerResults) == n, "C04.L2.all.unknown")
		if len(r.ServerResults) == n {
			for i := range srvLog {
				rt.Assert(r.ServerResults[i] == srvLog[i].res && srvLog[i].kind == 3, "C04.L2.entries")
			}
		}
	}
	if r.Result == result.ResultOK {
		rt.Assert(last.kind == 0, "C04.L2.ok.needs.good")
	}
}

//verif:harness H_C04_noserver
func H_C04_noserver() {
	cert := rt.Havoc[*x509.Certificate]("cert")
	cert.OCSPServer = nil
	r := CertCheckStatus(rt.EnvContext{Tag: "caller"}, cert, rt.Havoc[*x509.Certificate]("issuer"), CertCheckStatusOptions{HTTPClient: &http.Client{}})
	rt.Assert(r.Result == result.ResultNonRevokable && len(r.ServerResults) == 1 && r.ServerResults[0].Result == result.ResultNonRevokable && len(srvLog) == 0, "C04.L2.noserver")
}
