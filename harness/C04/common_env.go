//go:build verif

// Environment shared by the C04 harnesses: HTTP, URL, base64, ASN.1 and certificate-parsing leaves with ghost logging.
//verif:pkg revocation/internal/ocsp
//verif:init golang.org/x/crypto/ocsp
//verif:zeroglobal encoding/base64.StdEncoding
//verif:stub crypto/x509.checkSignature -> rt.StubCheckSignature
//verif:stub net/url.Parse -> stubURLParse
//verif:stub strings.EqualFold -> stubEqualFold
//verif:stub golang.org/x/crypto/ocsp.CreateRequest -> stubCreateRequest
//verif:stub (*encoding/base64.Encoding).EncodedLen -> stubEncodedLen
//verif:stub (*encoding/base64.Encoding).EncodeToString -> stubEncodeToString
//verif:stub net/url.QueryEscape -> stubQueryEscape
//verif:stub net/url.JoinPath -> stubJoinPath
//verif:stub net/http.NewRequestWithContext -> stubNewRequest
//verif:stub (*net/http.Client).Do -> stubDo
//verif:stub (net/http.Header).Set -> stubHeaderSet
//verif:stub io.ReadAll -> stubReadAll
//verif:stub encoding/asn1.Unmarshal -> stubUnmarshal
//verif:stub encoding/asn1.UnmarshalWithParams -> stubUnmarshalWithParams
//verif:stub crypto/x509.ParseCertificate -> stubParseCertificate
//verif:stub (encoding/asn1.BitString).RightAlign -> stubRightAlign
//verif:stub time.Now -> stubNow
//verif:slicelen Responses 2
//verif:slicelen Certificates 1
//verif:slicelen SingleExtensions 2
//verif:oidpool ResponseType 1.3.6.1.5.5.7.48.1.1,1.2.3
//verif:oidpool HashAlgorithm 1.3.14.3.2.26,1.2.3
//verif:oidpool SignatureAlgorithm 1.2.840.113549.1.1.11,1.2.3
//verif:oidpool SingleExtensions 2.5.29.24,1.3.6.1.5.5.7.48.1.5,1.2.3
package ocsp

import (
	"context"
	"crypto/x509"
	"encoding/asn1"
	"encoding/base64"
	"io"
	"net/http"
	"net/url"
	"time"

	rt "github.com/notaryproject/notation-core-go/internal/zzverifrt"
	xocsp "golang.org/x/crypto/ocsp"
)

// ---- ghost state
var (
	createdFor   [2]*x509.Certificate
	createdCalls int
	createdHash  int
	reqBytes     []byte
	b64Len       int
	escapedLen   int
	escaped      string
	joined       string
	joinedFrom   [2]string
	newReqs      []reqRec
	doCalls      int
	doMethod     string
	doURL        string
	doHasBody    bool
	httpStatus   int
	gotResponse  bool
	bodyClosed   bool
	readLimit    int64 = -1
	readCalls    int
	unbounded    bool
	embedded     *x509.Certificate
	parseCalls   int
	nowLog       []time.Time
	respSig      []byte
)

type reqRec struct {
	method, url string
	hasBody     bool
	req         *http.Request
}

// url.Parse: error => nil URL (documented); otherwise a URL whose scheme is an arbitrary string
func stubURLParse(s string) (*url.URL, error) {
	if rt.Choose(rt.Name("url.parse.err"), 2) == 1 {
		return nil, rt.NewEnvError("url")
	}
	return &url.URL{Scheme: rt.AtomString(rt.Name("url.scheme"))}, nil
}

// strings.EqualFold(scheme, "http"): an uninterpreted predicate of the scheme text
var schemeIsHTTP bool
var equalFoldCalls int

func stubEqualFold(a, b string) bool {
	if b != "http" {
		rt.Fail("EqualFold with an unexpected second operand")
	}
	equalFoldCalls++
	schemeIsHTTP = rt.Bool(rt.Name("scheme.equalfold.http"))
	return schemeIsHTTP
}

func stubCreateRequest(cert, issuer *x509.Certificate, opts *xocsp.RequestOptions) ([]byte, error) {
	createdFor = [2]*x509.Certificate{cert, issuer}
	createdCalls++
	if opts != nil {
		createdHash = int(opts.Hash)
	}
	if rt.Choose("createreq.err", 2) == 1 {
		return nil, rt.NewEnvError("createreq")
	}
	reqBytes = rt.Atom("ocspreq")
	return reqBytes, nil
}
func stubEncodedLen(e *base64.Encoding, n int) int { return (n + 2) / 3 * 4 }
func stubEncodeToString(e *base64.Encoding, b []byte) string {
	s := rt.AtomString(rt.Name("b64"))
	rt.Assume(len(s) == (len(b)+2)/3*4)
	b64Len = len(s)
	return s
}
func stubQueryEscape(s string) string {
	e := rt.AtomString(rt.Name("escaped"))
	rt.Assume(rt.And(len(e) >= len(s), len(e) <= 3*len(s)))
	escaped, escapedLen = e, len(e)
	return e
}
func stubJoinPath(base string, elem ...string) (string, error) {
	if rt.Choose("joinpath.err", 2) == 1 {
		return "", rt.NewEnvError("joinpath")
	}
	joined = rt.AtomString("joined")
	if len(elem) == 1 {
		joinedFrom = [2]string{base, elem[0]}
	}
	return joined, nil
}
func stubNewRequest(ctx context.Context, method, u string, body io.Reader) (*http.Request, error) {
	if rt.Choose(rt.Name("newreq.err"), 2) == 1 {
		return nil, rt.NewEnvError("newreq")
	}
	r := &http.Request{Method: method}
	newReqs = append(newReqs, reqRec{method, u, body != nil, r})
	return r, nil
}
func stubHeaderSet(h http.Header, k, v string) {}

type envBody struct{}

func (*envBody) Read(p []byte) (int, error) { rt.Fail("body read directly"); return 0, io.EOF }
func (*envBody) Close() error               { bodyClosed = true; return nil }

func stubDo(c *http.Client, req *http.Request) (*http.Response, error) {
	doCalls++
	for _, r := range newReqs {
		if r.req == req {
			doMethod, doURL, doHasBody = r.method, r.url, r.hasBody
		}
	}
	switch rt.Choose("do", 3) {
	case 1:
		return nil, &url.Error{Op: "Get", URL: "u", Err: rt.NewEnvError("transport")}
	case 2:
		return nil, rt.NewEnvError("do")
	}
	httpStatus = rt.Int("http.status")
	gotResponse = true
	return &http.Response{StatusCode: httpStatus, Body: &envBody{}}, nil
}

// io.ReadAll: at most the limit carried by an io.LimitedReader, or an error
func stubReadAll(r io.Reader) ([]byte, error) {
	readCalls++
	lr, ok := r.(*io.LimitedReader)
	if !ok {
		unbounded = true
	} else {
		readLimit = lr.N
	}
	if rt.Choose("readall.err", 2) == 1 {
		return nil, rt.NewEnvError("read")
	}
	b := rt.Atom("body")
	if ok {
		rt.Assume(int64(len(b)) <= lr.N)
	}
	return b, nil
}

// asn1.Unmarshal: error, clean decode into an arbitrary value of the target type, or a decode with trailing bytes
func stubUnmarshal(b []byte, val any) ([]byte, error) {
	n := rt.Name("asn1")
	switch rt.Choose(n+".outcome", 3) {
	case 1:
		return nil, rt.NewEnvError("asn1")
	case 2:
		rt.HavocInto(val, n)
		return []byte{0}, nil
	}
	rt.HavocInto(val, n)
	return nil, nil
}

var invParsed time.Time
var invOutcome int = -1
var invInput []byte

func stubUnmarshalWithParams(b []byte, val any, params string) ([]byte, error) {
	invInput = b
	invOutcome = rt.Choose("invdate.outcome", 3)
	switch invOutcome {
	case 1:
		return nil, rt.NewEnvError("asn1")
	case 2:
		invParsed = rt.Time("invdate")
		*(val.(*time.Time)) = invParsed
		return []byte{0}, nil
	}
	invParsed = rt.Time("invdate")
	*(val.(*time.Time)) = invParsed
	return nil, nil
}

func stubParseCertificate(der []byte) (*x509.Certificate, error) {
	parseCalls++
	if rt.Choose("parsecert.err", 2) == 1 {
		return nil, rt.NewEnvError("parsecert")
	}
	embedded = rt.Havoc[*x509.Certificate]("embedded")
	return embedded, nil
}
func stubRightAlign(b asn1.BitString) []byte {
	respSig = rt.Atom(rt.Name("resp.signature"))
	return respSig
}
func stubNow() time.Time {
	t := rt.Time(rt.Name("now"))
	nowLog = append(nowLog, t)
	return t
}
