//go:build verif

// C15.L3 — cose: the C15.L3.* assertions of ../C16/cose_sign.go
//verif:pkg signature/cose
//verif:include ../C16/cose_sign_env.go
//verif:include ../C16/cose_sign.go
//verif:harness H_C16_cose_sign_signer
package cose
