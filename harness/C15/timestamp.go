//go:build verif

// C15 — L1 revocationResult for every result vector (any int codes) against the chain length;
// L2 timestamp.Timestamp: bytes are returned only if the request was built from the given options, the timestamper was
// called with it, a granted token was extracted, token.Verify was called with Roots = the caller's TSA roots and succeeded,
// the chain it returned passed timestamping chain validation, and - if a validator is supplied - it was called with that
// chain and every certificate came out OK or NonRevokable; the bytes are the response's token. Any failure: error, no bytes.
//verif:pkg internal/timestamp
//verif:harness H_C15_results
//verif:harness H_C15_timestamp
//verif:stub github.com/notaryproject/tspclient-go.NewRequest -> stubNewRequest
//verif:stub (*github.com/notaryproject/tspclient-go.Response).SignedToken -> stubSignedToken
//verif:stub (*github.com/notaryproject/tspclient-go.SignedToken).Verify -> stubTokenVerify
//verif:summary github.com/notaryproject/notation-core-go/x509.ValidateTimestampingCertChain -> sumTSChain
package timestamp

import (
	"context"
	"crypto/x509"

	"github.com/notaryproject/tspclient-go"

	rt "github.com/notaryproject/notation-core-go/internal/zzverifrt"
	"github.com/notaryproject/notation-core-go/revocation"
	"github.com/notaryproject/notation-core-go/revocation/result"
	"github.com/notaryproject/notation-core-go/signature"
)

func H_C15_results() {
	n := rt.Choose("results", 1+rt.Bound("results_max", 4, 5))
	m := rt.Choose("chain", 1+rt.Bound("chain_max", 4, 5))
	var rs []*result.CertRevocationResult
	allGood, anyRevoked := true, false
	for i := 0; i < n; i++ {
		code := rt.Int("code" + string(rune('0'+i))) // any int, not only the four named results
		rs = append(rs, &result.CertRevocationResult{Result: result.Result(code)})
		allGood = rt.And(allGood, rt.Or(code == int(result.ResultOK), code == int(result.ResultNonRevokable)))
		anyRevoked = rt.Or(anyRevoked, code == int(result.ResultRevoked))
	}
	chain := make([]*x509.Certificate, m)
	for i := range chain {
		chain[i] = rt.Havoc[*x509.Certificate]("tsa" + string(rune('0'+i)))
	}
	err := revocationResult(rs, chain)
	rt.Assert(rt.Iff(err == nil, rt.And(n == m && n > 0, allGood)), "C15.L1.iff")
}

// ---- L2
var (
	newReqCalls   int
	newReqOpts    tspclient.RequestOptions
	theTSARequest *tspclient.Request
	tsCalls       int
	tsReqOK       bool
	theResponse   *tspclient.Response
	tokenCalls    int
	theToken      *tspclient.SignedToken
	verifyCalls   int
	verifyRootsOK bool
	verifyTokOK   bool
	tsaChain      []*x509.Certificate
	tsChainCalls  int
	tsChainArgOK  bool
	tsChainOK     bool
	valCalls      int
	valArgOK      bool
	valResults    []*result.CertRevocationResult
	valErr        bool
	theRoots      *x509.CertPool
	failed        bool
)

func stubNewRequest(opts tspclient.RequestOptions) (*tspclient.Request, error) {
	newReqCalls++
	newReqOpts = opts
	if rt.Choose("newrequest.err", 2) == 1 {
		failed = true
		return nil, rt.NewEnvError("newrequest")
	}
	theTSARequest = &tspclient.Request{}
	return theTSARequest, nil
}

type envTimestamper struct{}

func (envTimestamper) Timestamp(ctx context.Context, r *tspclient.Request) (*tspclient.Response, error) {
	tsCalls++
	tsReqOK = r == theTSARequest
	if rt.Choose("timestamper.err", 2) == 1 {
		failed = true
		return nil, rt.NewEnvError("tsa")
	}
	theResponse = &tspclient.Response{}
	theResponse.TimestampToken.FullBytes = rt.Atom("token.bytes")
	return theResponse, nil
}

// SignedToken: the token of a GRANTED response that parses as CMS; anything else is an error
func stubSignedToken(r *tspclient.Response) (*tspclient.SignedToken, error) {
	tokenCalls++
	if r != theResponse {
		rt.Fail("SignedToken of another response")
	}
	if rt.Choose("token.err", 2) == 1 {
		failed = true
		return nil, rt.NewEnvError("rejected-or-malformed")
	}
	theToken = &tspclient.SignedToken{}
	return theToken, nil
}
func stubTokenVerify(t *tspclient.SignedToken, ctx context.Context, opts x509.VerifyOptions) ([]*x509.Certificate, error) {
	verifyCalls++
	verifyTokOK = t == theToken
	verifyRootsOK = opts.Roots == theRoots
	if rt.Choose("token.verify.err", 2) == 1 {
		failed = true
		return nil, rt.NewEnvError("cms")
	}
	n := 1 + rt.Choose("tsachain.len", 3)
	for i := 0; i < n; i++ {
		tsaChain = append(tsaChain, rt.Havoc[*x509.Certificate]("tsa"+string(rune('0'+i))))
	}
	return tsaChain, nil
}
func sumTSChain(chain []*x509.Certificate) error {
	tsChainCalls++
	tsChainArgOK = len(chain) == len(tsaChain) && (len(chain) == 0 || chain[0] == tsaChain[0])
	tsChainOK = rt.Choose("tsachain.verdict", 2) == 0
	if !tsChainOK {
		failed = true
		return rt.NewEnvError("tsachain")
	}
	return nil
}

type envValidator struct{}

var valAllGood bool

func (envValidator) ValidateContext(ctx context.Context, o revocation.ValidateContextOptions) ([]*result.CertRevocationResult, error) {
	valCalls++
	valArgOK = len(o.CertChain) == len(tsaChain) && (len(o.CertChain) == 0 || o.CertChain[0] == tsaChain[0])
	if rt.Choose("validator.err", 2) == 1 {
		valErr, failed = true, true
		return nil, rt.NewEnvError("validator")
	}
	// a result per certificate (the validator's contract), each with an arbitrary code
	valAllGood = true
	for i := range o.CertChain {
		code := rt.Int("revocation.code" + string(rune('0'+i)))
		valResults = append(valResults, &result.CertRevocationResult{Result: result.Result(code)})
		valAllGood = rt.And(valAllGood, rt.Or(code == int(result.ResultOK), code == int(result.ResultNonRevokable)))
	}
	return valResults, nil
}

func H_C15_timestamp() {
	theRoots = x509.NewCertPool()
	req := &signature.SignRequest{Timestamper: envTimestamper{}, TSARootCAs: theRoots}
	hasValidator := rt.Choose("validator", 2) == 1
	if hasValidator {
		req.TSARevocationValidator = envValidator{}
	}
	opts := tspclient.RequestOptions{Content: rt.Atom("content"), HashAlgorithm: 5}
	out, err := Timestamp(req, opts)
	rt.Assert((out == nil) != (err == nil), "C15.L2.bytes.xor.error")
	if err != nil {
		return
	}
	rt.Assert(!failed, "C15.L2.no.failure.hidden")
	rt.Assert(newReqCalls == 1 && rt.Same(newReqOpts.Content, opts.Content) && newReqOpts.HashAlgorithm == opts.HashAlgorithm, "C15.L2.request.from.options")
	rt.Assert(tsCalls == 1 && tsReqOK, "C15.L2.timestamper.called.with.request")
	rt.Assert(tokenCalls == 1 && theToken != nil, "C15.L2.granted.token")
	rt.Assert(verifyCalls == 1 && verifyTokOK && verifyRootsOK, "C15.L2.token.verified.against.callers.roots")
	rt.Assert(tsChainCalls == 1 && tsChainArgOK && tsChainOK, "C15.L2.tsa.chain.validated")
	if hasValidator {
		rt.Assert(valCalls == 1 && valArgOK && !valErr, "C15.L2.revocation.checked")
		rt.Assert(valAllGood, "C15.L2.every.tsa.certificate.ok.or.nonrevokable")
	} else {
		rt.Assert(valCalls == 0, "C15.L2.no.validator")
	}
	rt.Assert(rt.Same(out, theResponse.TimestampToken.FullBytes), "C15.L2.bytes.are.the.token")
}
