//go:build verif

// C15.L3 — jws: the C15.L3.* assertions of ../C16/jws_sign.go
//verif:pkg signature/jws
//verif:include ../C16/jws_sign_env.go
//verif:include ../C16/jws_sign.go
//verif:harness H_C16_jws_sign_signer
package jws
