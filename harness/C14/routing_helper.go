//go:build verif

//verif:pkg revocation/internal/x509util
package x509util

import "github.com/notaryproject/notation-core-go/revocation/purpose"

func purposeOf(p int) purpose.Purpose { return purpose.Purpose(p) }
