//go:build verif

// C14 lemmas — timestamping leaf / CA rules against a declarative restatement, for arbitrary parsed certificates.
//verif:pkg x509
//verif:harness H_C14_leaf
//verif:harness H_C14_ca
//verif:stub crypto/x509.checkSignature -> rt.StubCheckSignature
package x509

import (
	"crypto/x509"

	rt "github.com/notaryproject/notation-core-go/internal/zzverifrt"
)

const forbiddenKU14 = x509.KeyUsageKeyEncipherment | x509.KeyUsageDataEncipherment | x509.KeyUsageKeyAgreement | x509.KeyUsageCertSign |
	x509.KeyUsageCRLSign | x509.KeyUsageEncipherOnly | x509.KeyUsageDecipherOnly

func specTSLeaf(c *x509.Certificate) bool {
	kuPresent, _ := rt.ExtFlags(c.Extensions, 15)
	ekuPresent, ekuCrit := rt.ExtFlags(c.Extensions, 37)
	// parser invariant: the EKU lists are non-empty exactly when the EKU extension is present
	rt.Assume(rt.Iff(len(c.ExtKeyUsage)+len(c.UnknownExtKeyUsage) > 0, ekuPresent))
	onlyTS := false
	if len(c.ExtKeyUsage) == 1 && len(c.UnknownExtKeyUsage) == 0 {
		onlyTS = c.ExtKeyUsage[0] == x509.ExtKeyUsageTimeStamping
	}
	r := rt.Not(rt.And(c.BasicConstraintsValid, c.IsCA))
	r = rt.And(r, kuPresent)
	r = rt.And(r, rt.And(c.KeyUsage&x509.KeyUsageDigitalSignature != 0, c.KeyUsage&forbiddenKU14 == 0))
	r = rt.And(r, rt.And(onlyTS, rt.And(ekuPresent, ekuCrit)))
	return rt.And(r, rt.AlgRow(rt.KeyInfo(c.PublicKey)) != 0)
}

func specTSCA(c *x509.Certificate, k int) bool {
	kuPresent, _ := rt.ExtFlags(c.Extensions, 15)
	present := rt.Or(c.MaxPathLen > 0, rt.And(c.MaxPathLen == 0, c.MaxPathLenZero))
	r := rt.And(c.BasicConstraintsValid, c.IsCA)
	r = rt.And(r, rt.Or(rt.Not(present), c.MaxPathLen >= k))
	r = rt.And(r, kuPresent)
	return rt.And(r, c.KeyUsage&x509.KeyUsageCertSign != 0)
}

func H_C14_leaf() {
	rt.ExtMax, rt.EKUMax = rt.Bound("extensions_max", 3, 4), rt.Bound("eku_max", 3, 3)
	c := rt.Havoc[*x509.Certificate]("c")
	want := specTSLeaf(c)
	rt.Assert(rt.Iff(validateTimestampingLeafCertificate(c) == nil, want), "C14.L1.leaf")
}

func H_C14_ca() {
	rt.ExtMax = rt.Bound("extensions_max", 3, 4)
	c := rt.Havoc[*x509.Certificate]("c")
	k := rt.Int("expectedPathLen")
	rt.Assert(rt.Iff(validateTimestampingCACertificate(c, k) == nil, specTSCA(c, k)), "C14.L2.ca")
}
