//go:build verif

// C14 walk — ValidateTimestampingCertChain over chains of 1..3 (thorough 1..4) certificates. The per-certificate rules
// are replaced by summaries justified by the lemmas in lemmas.go: uninterpreted verdicts per (certificate, argument), so
// that a check applied to the wrong position, with the wrong expected path length or not at all shows up as a
// disagreement with the reference, which applies the same verdicts to the right arguments.
//verif:pkg x509
//verif:harness H_C14_walk
//verif:stub crypto/x509.checkSignature -> rt.StubCheckSignature
//verif:summary github.com/notaryproject/notation-core-go/x509.validateTimestampingLeafCertificate -> sumLeaf14
//verif:summary github.com/notaryproject/notation-core-go/x509.validateTimestampingCACertificate -> sumCA14
//verif:summary github.com/notaryproject/notation-core-go/x509.isIssuedBy -> sumIssuedBy14
package x509

import (
	"crypto/x509"

	rt "github.com/notaryproject/notation-core-go/internal/zzverifrt"
)

var walkIdx14 = map[*x509.Certificate]int{}
var ufMemo14 = map[string]bool{}
var issuedMemo14 = map[string]int{}

func idxName14(c *x509.Certificate) string {
	i, ok := walkIdx14[c]
	if !ok {
		rt.Fail("summary called with a certificate that is not in the chain")
	}
	return string(rune('0' + i))
}

// uf: one uninterpreted verdict14 per key.
func uf14(key string) bool {
	if v, ok := ufMemo14[key]; ok {
		return v
	}
	v := rt.Bool(key)
	ufMemo14[key] = v
	return v
}

func verdict14(ok bool, tag string) error {
	if ok {
		return nil
	}
	return rt.NewEnvError(tag)
}

func sumLeaf14(c *x509.Certificate) error { return verdict14(uf14("leafOK."+idxName14(c)), "leaf") }
func sumCA14(c *x509.Certificate, k int) error {
	return verdict14(uf14("caOK."+idxName14(c)+"."+string(rune('a'+k+1))), "ca")
}
// issued: 0 = (true, nil), 1 = (false, nil), 2 = (false, err); one verdict14 per ordered pair.
func issued14(s, p *x509.Certificate) int {
	key := idxName14(s) + idxName14(p)
	if v, ok := issuedMemo14[key]; ok {
		return v
	}
	v := rt.Choose("issued."+key, 3)
	// lemma C03.L4 (names): without an error the answer is true exactly when the issuer's subject is the subject's issuer
	// name, byte for byte — part of the summary's post-condition, so that code which looks at the names itself before or
	// instead of asking (a fast path that skips the signature check of a certificate that is not self-issued) agrees
	// with the reference (behaviour-preserving change B3).
	switch v {
	case 0:
		rt.Assume(rt.BytesEq(p.RawSubject, s.RawIssuer))
	case 1:
		rt.Assume(rt.Not(rt.BytesEq(p.RawSubject, s.RawIssuer)))
	}
	issuedMemo14[key] = v
	return v
}
func sumIssuedBy14(s, p *x509.Certificate) (bool, error) {
	switch issued14(s, p) {
	case 0:
		return true, nil
	case 1:
		return false, nil
	}
	return false, rt.NewEnvError("issued")
}

func H_C14_walk() {
	n := 1 + rt.Choose("n", rt.Bound("chain_len_max", 3, 4))
	chain := make([]*x509.Certificate, n)
	for i := range chain {
		chain[i] = rt.Havoc[*x509.Certificate]("c" + string(rune('0'+i)))
		walkIdx14[chain[i]] = i
	}
	err := ValidateTimestampingCertChain(chain)

	// reference (appendix A.1) over the same verdicts
	want := true
	if n == 1 {
		c := chain[0]
		selfSig := rt.SigValid(c.RawTBSCertificate, c.Signature, c.PublicKey)
		want = rt.And(want, rt.And(selfSig, rt.BytesEq(c.RawSubject, c.RawIssuer)))
		want = rt.And(want, uf14("leafOK.0"))
	} else {
		want = rt.And(want, issued14(chain[n-1], chain[n-1]) == 0)
		for i := 0; i < n-1; i++ {
			want = rt.And(want, issued14(chain[i], chain[i]) != 0)
			want = rt.And(want, issued14(chain[i], chain[i+1]) == 0)
		}
		want = rt.And(want, uf14("leafOK.0"))
		for i := 1; i < n; i++ {
			want = rt.And(want, uf14("caOK."+string(rune('0'+i))+"."+string(rune('a'+i))))
		}
	}
	rt.Assert(rt.Iff(err == nil, want), "C14.walk.iff")
	// empty chain
	rt.Assert(ValidateTimestampingCertChain(nil) != nil, "C14.walk.empty")
}
