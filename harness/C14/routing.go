//go:build verif

// C14/C12 routing — x509util.ValidateChain maps the purpose to the right chain validation and wraps failures.
//verif:pkg revocation/internal/x509util
//verif:harness H_C14_routing
//verif:summary github.com/notaryproject/notation-core-go/x509.ValidateCodeSigningCertChain -> sumCS
//verif:summary github.com/notaryproject/notation-core-go/x509.ValidateTimestampingCertChain -> sumTS
package x509util

import (
	"crypto/x509"
	"time"

	rt "github.com/notaryproject/notation-core-go/internal/zzverifrt"
	"github.com/notaryproject/notation-core-go/revocation/result"
)

var csCalls, tsCalls int
var csErr, tsErr error
var routedChain []*x509.Certificate
var csTimeNil bool

func sumCS(chain []*x509.Certificate, t *time.Time) error {
	csCalls++
	routedChain, csTimeNil = chain, t == nil
	if rt.Choose("cs.verdict", 2) == 1 {
		csErr = rt.NewEnvError("cs")
	}
	return csErr
}
func sumTS(chain []*x509.Certificate) error {
	tsCalls++
	routedChain = chain
	if rt.Choose("ts.verdict", 2) == 1 {
		tsErr = rt.NewEnvError("ts")
	}
	return tsErr
}

func H_C14_routing() {
	p := rt.Int("purpose") // every int, not only the two defined purposes
	chain := []*x509.Certificate{rt.Havoc[*x509.Certificate]("c0")}
	err := ValidateChain(chain, purposeOf(p))
	switch {
	case p == 0: // purpose.CodeSigning
		rt.Assert(csCalls == 1 && tsCalls == 0 && csTimeNil && len(routedChain) == 1 && routedChain[0] == chain[0], "C14.route.cs")
		rt.Assert((err == nil) == (csErr == nil), "C14.route.cs.verdict")
	case p == 1: // purpose.Timestamping
		rt.Assert(tsCalls == 1 && csCalls == 0 && len(routedChain) == 1 && routedChain[0] == chain[0], "C14.route.ts")
		rt.Assert((err == nil) == (tsErr == nil), "C14.route.ts.verdict")
	default:
		rt.Assert(err != nil && csCalls == 0 && tsCalls == 0, "C14.route.unknown")
	}
	if err != nil {
		_, ok := err.(result.InvalidChainError)
		rt.Assert(ok, "C14.route.errtype")
	}
}
