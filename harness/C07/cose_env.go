//go:build verif

// Environment of the COSE harnesses (C01, C07, C13 verify side): the output of the CBOR decoder is an arbitrary
// Sign1Message object (DESIGN.md appendix D); codec, certificate parser and the signature primitive are leaves.
//verif:pkg signature/cose
//verif:init github.com/veraison/go-cose
//verif:stub (github.com/fxamacker/cbor/v2.EncOptions).EncMode -> stubEncModeCtor
//verif:stub (github.com/fxamacker/cbor/v2.DecOptions).DecMode -> stubDecModeCtor
//verif:stub github.com/fxamacker/cbor/v2.Unmarshal -> stubCBORUnmarshal
//verif:stub (*github.com/fxamacker/cbor/v2.RawTag).UnmarshalCBOR -> stubRawTag
//verif:stub github.com/veraison/go-cose.deterministicBinaryString -> stubDetBstr
//verif:stub github.com/veraison/go-cose.computeHash -> stubComputeHash
//verif:stub crypto/rsa.VerifyPSS -> stubVerifyPSS
//verif:stub github.com/veraison/go-cose.decodeECDSASignature -> stubDecodeECDSASig
//verif:stub crypto/ecdsa.Verify -> stubECDSAVerify
//verif:stub (*crypto/ecdsa.PublicKey).ECDH -> stubECDH
//verif:stub crypto/x509.ParseCertificate -> stubParseCert
//verif:summary github.com/notaryproject/notation-core-go/x509.ValidateCodeSigningCertChain -> sumChainCOSE
package cose

import (
	"bytes"
	"crypto"
	"crypto/ecdh"
	"crypto/ecdsa"
	"crypto/elliptic"
	"crypto/rsa"
	"crypto/x509"
	"math/big"
	"io"
	"time"

	"github.com/fxamacker/cbor/v2"
	gocose "github.com/veraison/go-cose"

	rt "github.com/notaryproject/notation-core-go/internal/zzverifrt"
)

// ---- codec objects
type envEnc struct{}

func (envEnc) NewEncoder(w io.Writer) *cbor.Encoder { rt.Fail("NewEncoder"); return nil }
func (envEnc) EncOptions() cbor.EncOptions         { return cbor.EncOptions{} }

type tbsRec struct {
	protected []byte
	payload   []byte
	out       []byte
}

var tbsLog []tbsRec

// Marshal: the only use on the verify side is go-cose's Sig_structure ["Signature1", protected, external, payload]:
// the to-be-signed bytes are an uninterpreted injective-enough function of (protected, payload) — same inputs, same bytes.
func (envEnc) Marshal(v any) ([]byte, error) {
	if s, ok := v.([]any); ok && len(s) == 4 {
		p, _ := s[1].(cbor.RawMessage)
		y, _ := s[3].([]byte)
		for _, r := range tbsLog {
			if rt.Same([]byte(r.protected), []byte(p)) && rt.Same(r.payload, y) {
				return r.out, nil
			}
		}
		out := rt.Atom(rt.Name("tbs"))
		tbsLog = append(tbsLog, tbsRec{[]byte(p), y, out})
		return out, nil
	}
	return signSideMarshal(v)
}

type envDec struct{}

func (envDec) UnmarshalFirst(data []byte, v any) ([]byte, error) { rt.Fail("UnmarshalFirst"); return nil, nil }
func (envDec) Valid(data []byte) error                            { rt.Fail("Valid"); return nil }
func (envDec) Wellformed(data []byte) error                       { rt.Fail("Wellformed"); return nil }
func (envDec) NewDecoder(r io.Reader) *cbor.Decoder               { rt.Fail("NewDecoder"); return nil }
func (envDec) DecOptions() cbor.DecOptions                        { return cbor.DecOptions{} }

var rawProtectedDecodes int // 0 not asked, 1 ok, 2 error
var decodedProtected []byte

func (envDec) Unmarshal(data []byte, v any) error {
	switch p := v.(type) {
	case *[]byte: // generateRawProtectedCBORMap: the protected bstr (a decoder is a function of its input: memoised)
		if rawProtectedDecodes == 1 {
			*p = decodedProtected
			return nil
		}
		if rawProtectedDecodes == 2 || rt.Choose("rawprotected.bstr.err", 2) == 1 {
			rawProtectedDecodes = 2
			return rt.NewEnvError("cbor")
		}
		rawProtectedDecodes = 1
		decodedProtected = rt.Atom("protected.map.bytes")
		*p = decodedProtected
		return nil
	}
	return signSideUnmarshal(data, v)
}

func stubEncModeCtor(o cbor.EncOptions) (cbor.EncMode, error) { return envEnc{}, nil }
func stubDecModeCtor(o cbor.DecOptions) (cbor.DecMode, error) { return envDec{}, nil }

// hooks filled by sign-side harnesses (not used on the verify side)
var signSideMarshal = func(v any) ([]byte, error) { rt.Fail("unexpected cbor Marshal"); return nil, nil }
var signSideUnmarshal = func(data []byte, v any) error { rt.Fail("unexpected cbor Unmarshal"); return nil }

// ---- the raw view of the protected header: label -> raw item whose only observable property is its tag number
var rawViewErr bool
var rawViewAsked bool
var theProtected gocose.ProtectedHeader
var tagOf = map[string]int{} // ghost: tag number per time-valued label (symbolic), -1 = untagged

func labelName(k any) string {
	switch x := k.(type) {
	case string:
		return x
	}
	return "?"
}

var rawIndex []string // raw item (1 byte) -> label
var protectedUniverse []any

func stubCBORUnmarshal(data []byte, v any) error {
	hm, ok := v.(*map[any]cbor.RawMessage)
	if !ok {
		rt.Fail("unexpected cbor.Unmarshal target")
	}
	if rawViewAsked {
		if rawViewErr {
			return rt.NewEnvError("cbor")
		}
		*hm = theRawView
		return nil
	}
	rawViewAsked = true
	if rt.Choose("rawprotected.map.err", 2) == 1 {
		rawViewErr = true
		return rt.NewEnvError("cbor")
	}
	// both views decode the same bytes: the raw map has exactly the keys of the decoded one
	theRawView = rt.LazyMap(protectedUniverse, func(k any) (cbor.RawMessage, bool) {
		if _, present := theProtected[k]; !present {
			return nil, false
		}
		rawIndex = append(rawIndex, labelName(k))
		return cbor.RawMessage{byte(len(rawIndex) - 1)}, true
	})
	*hm = theRawView
	return nil
}

var theRawView map[any]cbor.RawMessage

// (*cbor.RawTag).UnmarshalCBOR(raw item): error iff the item is not tagged; otherwise its tag number.
// The decoder guarantees: the decoded value is a time.Time iff the item carries tag 0 or 1 (DecTagRequired).
func stubRawTag(t *cbor.RawTag, data []byte) error {
	lbl := rawIndex[int(data[0])]
	tag, ok := tagOf[lbl]
	if !ok {
		rt.Fail("raw tag of a label that is not time-valued")
	}
	// the decoder guarantees: the decoded value is a time.Time exactly when the raw item carries tag 0 or 1
	rt.Assume(rt.Or(tag == 0, tag == 1))
	if tag < 0 {
		return rt.NewEnvError("untagged")
	}
	t.Number = uint64(tag)
	return nil
}

var detBstrAsked, detBstrErr bool
var noCodecFaults bool

func stubDetBstr(data cbor.RawMessage) (cbor.RawMessage, error) {
	if !detBstrAsked {
		detBstrAsked = true
		detBstrErr = !noCodecFaults && rt.Choose("detbstr.err", 2) == 1
	}
	if detBstrErr {
		return nil, rt.NewEnvError("detbstr")
	}
	return data, nil
}

// ---- the signature primitive (leaves below go-cose's verifier glue): an uninterpreted predicate of
// (key, hash, content, signature); the digest is an uninterpreted function of (hash, content)
type digRec struct {
	hash    int
	content []byte
	digest  []byte
}

var digLog []digRec

func stubComputeHash(h crypto.Hash, data []byte) ([]byte, error) {
	for _, r := range digLog {
		if r.hash == int(h) && rt.Same(r.content, data) {
			return r.digest, nil
		}
	}
	d := rt.Atom(rt.Name("digest"))
	digLog = append(digLog, digRec{int(h), data, d})
	return d, nil
}

type vrfRec struct {
	key     crypto.PublicKey
	hash    int // crypto.Hash passed to the primitive (0 when the primitive is not told, as for ECDSA)
	content []byte
	sig     []byte
	valid   bool
	pss     bool
}

var vrfLog []vrfRec

func contentOf(digest []byte) []byte {
	for _, r := range digLog {
		if rt.Same(r.digest, digest) {
			return r.content
		}
	}
	rt.Fail("primitive called with a digest that computeHash did not produce")
	return nil
}
func hashOf(digest []byte) int {
	for _, r := range digLog {
		if rt.Same(r.digest, digest) {
			return r.hash
		}
	}
	return 0
}

// the primitives are functions of their arguments: the same question gets the same answer
func priorVerdict(key any, hash int, content, sig []byte, pss bool) (bool, bool) {
	for _, r := range vrfLog {
		if r.pss == pss && r.hash == hash && rt.Same(r.key, key) && rt.Same(r.content, content) && rt.Same(r.sig, sig) {
			return r.valid, true
		}
	}
	return false, false
}

func stubVerifyPSS(pub *rsa.PublicKey, hash crypto.Hash, digest []byte, sig []byte, opts *rsa.PSSOptions) error {
	v, asked := priorVerdict(pub, int(hash), contentOf(digest), sig, true)
	if !asked {
		v = rt.Bool(rt.Name("rsa.pss.valid"))
	}
	// the hash the primitive is told must be the one the digest was computed with
	rt.Assert(int(hash) == hashOf(digest), "C01.cose.pss.hash.consistent")
	vrfLog = append(vrfLog, vrfRec{pub, int(hash), contentOf(digest), sig, v, true})
	if v {
		return nil
	}
	return rt.NewEnvError("pss")
}

var lastECSig []byte

var ecSigDecoded [][]byte
var ecSigDecodeErr []bool

func stubDecodeECDSASig(curve elliptic.Curve, sig []byte) (r, s *big.Int, err error) {
	known := -1
	for i, x := range ecSigDecoded {
		if rt.Same(x, sig) {
			known = i
		}
	}
	if known < 0 {
		ecSigDecoded = append(ecSigDecoded, sig)
		ecSigDecodeErr = append(ecSigDecodeErr, rt.Choose(rt.Name("ecdsa.sig.decode.err"), 2) == 1)
		known = len(ecSigDecoded) - 1
	}
	if ecSigDecodeErr[known] {
		return nil, nil, rt.NewEnvError("ecdsasig")
	}
	lastECSig = sig
	return rt.BigOf(1), rt.BigOf(2), nil
}
func stubECDSAVerify(pub *ecdsa.PublicKey, digest []byte, r, s *big.Int) bool {
	v, asked := priorVerdict(pub, hashOf(digest), contentOf(digest), lastECSig, false)
	if !asked {
		v = rt.Bool(rt.Name("ecdsa.valid"))
	}
	vrfLog = append(vrfLog, vrfRec{pub, hashOf(digest), contentOf(digest), lastECSig, v, false})
	return v
}
var ecdhKeys []*ecdsa.PublicKey
var ecdhErrs []bool

// (*ecdsa.PublicKey).ECDH: whether the point is on the curve - a function of the key
func stubECDH(k *ecdsa.PublicKey) (*ecdh.PublicKey, error) {
	known := -1
	for i, x := range ecdhKeys {
		if x == k {
			known = i
		}
	}
	if known < 0 {
		ecdhKeys = append(ecdhKeys, k)
		ecdhErrs = append(ecdhErrs, rt.Choose(rt.Name("ecdh.err"), 2) == 1)
		known = len(ecdhKeys) - 1
	}
	if ecdhErrs[known] {
		return nil, rt.NewEnvError("ecdh")
	}
	return nil, nil
}

// ---- certificates
var chainRaw [][]byte
var chainParseErr []bool
var parseLog []int

func stubParseCert(der []byte) (*x509.Certificate, error) {
	for i, r := range chainRaw {
		if rt.Same(r, der) {
			parseLog = append(parseLog, i)
			if chainParseErr[i] {
				return nil, rt.NewEnvError("parsecert")
			}
			c := rt.Havoc[*x509.Certificate]("cert" + string(rune('0'+i)))
			return c, nil
		}
	}
	// sign side: the bytes are the Raw field of a certificate the signer handed over; parsing gives that certificate back
	for _, c := range knownCerts {
		if rt.Same(c.Raw, der) {
			return c, nil
		}
	}
	// any other bytes (for instance a certificate list smuggled into a signed header): some certificate, or an error
	if rt.Choose(rt.Name("foreign.cert.parse.err"), 2) == 1 {
		return nil, rt.NewEnvError("parsecert")
	}
	return rt.Havoc[*x509.Certificate](rt.Name("foreign.cert")), nil
}

var knownCerts []*x509.Certificate

var chainVerdict bool // the chain conforms (no signing time considered)
var chainTimeOK bool  // ... and every certificate is valid at the signing time supplied
var chainCalls int
var chainArgs []*x509.Certificate
var chainTimeNil bool
var chainLastOK bool

// lemma C03: an uninterpreted verdict per chain; with a signing time the validity windows are checked in addition
func sumChainCOSE(chain []*x509.Certificate, t *time.Time) error {
	chainCalls++
	chainArgs, chainTimeNil = chain, t == nil
	if chainCalls == 1 { // a function of the chain: the same verdict on every call
		chainVerdict = rt.Bool("chain.ok")
		chainTimeOK = rt.Bool("chain.valid.at.signing.time")
	}
	chainLastOK = chainVerdict
	if t != nil {
		chainLastOK = rt.And(chainVerdict, chainTimeOK)
	}
	if chainLastOK {
		return nil
	}
	return rt.NewEnvError("chain")
}

var _ = bytes.Equal
