//go:build verif

// C07 / C13 (JWS, verify side) — base.Envelope.Content on an ARBITRARY decoded JWS envelope object: arbitrary texts in
// protected/payload/signature, a protected header JSON object with every specified key absent or present (text values
// arbitrary, times arbitrary instants), a crit list of 0..2 (thorough 0..3) arbitrary names, up to 2 further keys with
// values of any JSON kind, a chain of 0..2 certificates, signing agent and timestamp token. Reference: appendix A.4.
//verif:pkg signature/jws
//verif:include jws_env.go
//verif:harness H_C07_jws_content
//verif:harness H_C07_jws_content_fold
package jws

import (
	"crypto/x509"
	"time"

	rt "github.com/notaryproject/notation-core-go/internal/zzverifrt"
	"github.com/notaryproject/notation-core-go/signature"
	"github.com/notaryproject/notation-core-go/signature/internal/base"
)

var rawLenJ int

func buildEnvelopeJWS() *jwsEnvelope {
	env := &jwsEnvelope{Protected: rt.AtomString("protected.b64"), Payload: rt.AtomString("payload.b64"), Signature: rt.AtomString("signature.b64")}
	n := rt.Choose("chain.len", 3)
	for i := 0; i < n; i++ {
		raw := rt.Atom("chain" + string(rune('0'+i)) + ".raw")
		chainRawJ = append(chainRawJ, raw)
		chainParseErrJ = append(chainParseErrJ, false)
		env.Header.CertChain = append(env.Header.CertChain, raw)
	}
	if n > 0 && rt.Choose("chain.last.unparsable", 2) == 1 {
		chainParseErrJ[n-1] = true
	}
	env.Header.SigningAgent = rt.AtomString("agent")
	env.Header.TimestampSignature = rt.Atom("timestamp.token")
	return env
}

func H_C07_jws_content() {
	env := buildEnvelopeJWS()
	raw := rt.Atom("raw")
	rawLenJ = len(raw)
	e := &base.Envelope{Envelope: &envelope{base: env}, Raw: raw}
	c, err := e.Content()
	checkContentJWS(env, c, err)
}

// the same with one member of the protected header whose key differs from a specified key only in letter case
func H_C07_jws_content_fold() {
	foldModel = true
	extrasMax = rt.Bound("fold_further_headers_max", 1, 2)
	H_C07_jws_content()
}

// readFromOwnKey: with a case variant that the struct view reports, does the view nevertheless show what the
// exactly-keyed member says (so that no reader could tell)?
func readFromOwnKey(h *jwsProtectedHeader) bool {
	timeSame := func(p *time.Time) bool {
		if !exactPresent {
			return p == nil
		}
		return p != nil && exactTime != nil && p.Equal(*exactTime)
	}
	textSame := func(s string) bool {
		if !exactPresent {
			return len(s) == 0
		}
		return rt.StrEq(s, exactText)
	}
	switch specKeys[foldIdx] {
	case "alg":
		return textSame(h.Algorithm)
	case "cty":
		return textSame(h.ContentType)
	case "io.cncf.notary.signingScheme":
		return textSame(string(h.SigningScheme))
	case "crit":
		return !exactPresent && len(h.Critical) == 0 // lists are not compared: a crit list read from a variant is a deviation
	case "io.cncf.notary.expiry":
		return timeSame(h.Expiry)
	case "io.cncf.notary.signingTime":
		return timeSame(h.SigningTime)
	case "io.cncf.notary.authenticSigningTime":
		return timeSame(h.AuthenticSigningTime)
	}
	return false
}

func jwsAlgRow(a string) int {
	r := 0
	for i, n := range []string{"PS256", "PS384", "PS512", "ES256", "ES384", "ES512"} {
		r = rt.IteInt(rt.StrEq(a, n), i+1, r)
	}
	return r
}

func inList(l []string, s string) bool {
	r := false
	for _, x := range l {
		r = rt.Or(r, rt.StrEq(x, s))
	}
	return r
}

const (
	kExpiry = "io.cncf.notary.expiry"
	kScheme = "io.cncf.notary.signingScheme"
	kAuthST = "io.cncf.notary.authenticSigningTime"
)

// isExtKey: does name equal one of the further (non-specified) keys that are present?
func isPresentExt(name string) bool {
	r := false
	for i, k := range extKeys {
		if extFld[i].asked && extFld[i].present {
			r = rt.Or(r, rt.StrEq(name, k))
		}
	}
	return r
}

func checkContentJWS(env *jwsEnvelope, c *signature.EnvelopeContent, err error) {
	accepted := err == nil
	rt.Assert((c != nil) == accepted, "C07.jws.content.iff.noerror")
	if accepted {
		checkAcceptedJWS(env, c)
		return
	}
	// rejected: one of the reasons of A.4 must be visible among what the code looked at, or the case is an open one
	reason := rawLenJ == 0
	reason = reason || foldIdx >= 0 // open: a key that differs from a specified key only in letter case may be refused
	_, pOK := decodedOf(env.Protected)
	for _, r := range b64Log { // any text that does not decode
		reason = reason || r.err
	}
	_ = pOK
	reason = reason || structErr
	if structDecoded && !structErr {
		isX509, isSA := false, false
		if fScheme.asked {
			isX509, isSA = rt.StrEq(string(vScheme), "notary.x509"), rt.StrEq(string(vScheme), "notary.x509.signingAuthority")
			reason = rt.Or(reason, rt.Not(rt.Or(isX509, isSA)))
			// open: the other scheme's time header is present as well (JWS rejects it)
			if fAuthST.asked && fAuthST.present {
				reason = rt.Or(reason, isX509)
			}
			if fSigTime.asked && fSigTime.present {
				reason = rt.Or(reason, isSA)
			}
			if fAuthST.asked && !fAuthST.present {
				reason = rt.Or(reason, isSA)
			}
			if fSigTime.asked && !fSigTime.present {
				reason = rt.Or(reason, isX509) // signing time missing => zero => rejected
			}
		}
		if fCrit.asked {
			reason = rt.Or(reason, len(vCrit) == 0)
			reason = rt.Or(reason, rt.Not(inList(vCrit, kScheme)))
			if fScheme.asked {
				reason = rt.Or(reason, rt.And(isSA, rt.Not(inList(vCrit, kAuthST))))
			}
			if fExpiry.asked && fExpiry.present {
				reason = rt.Or(reason, rt.And(rt.Not(vExpiry.IsZero()), rt.Not(inList(vCrit, kExpiry))))
			}
			// every crit entry must name a header that has to be critical, or a present further header; duplicates and
			// entries naming another specified header are open cases that JWS rejects
			for i, e := range vCrit {
				must := rt.Or(rt.StrEq(e, kScheme), rt.Or(rt.StrEq(e, kAuthST), rt.StrEq(e, kExpiry)))
				dup := false
				for _, prev := range vCrit[:i] {
					dup = rt.Or(dup, rt.StrEq(prev, e))
				}
				reason = rt.Or(reason, rt.Or(dup, rt.Not(rt.Or(must, isPresentExt(e)))))
				// a must-be-critical name that is not required here (e.g. expiry listed but absent) is not in the set either
				if fExpiry.asked {
					zeroOrAbsent := !fExpiry.present
					if fExpiry.present {
						zeroOrAbsent = vExpiry.IsZero()
					}
					reason = rt.Or(reason, rt.And(rt.StrEq(e, kExpiry), zeroOrAbsent))
				}
				if fScheme.asked {
					reason = rt.Or(reason, rt.And(rt.StrEq(e, kAuthST), rt.Not(isSA)))
				}
			}
		}
		if fAlg.asked {
			reason = rt.Or(reason, jwsAlgRow(vAlg) == 0)
		}
		st := time.Time{}
		stKnown := false
		if fScheme.asked && fSigTime.asked && fSigTime.present && fAuthST.asked && fAuthST.present {
			st, stKnown = rt.IteTime(isSA, *vAuthST, *vSigTime), true
		} else if fSigTime.asked && fSigTime.present && !(fAuthST.asked && fAuthST.present) {
			st, stKnown = *vSigTime, true
		} else if fAuthST.asked && fAuthST.present {
			st, stKnown = *vAuthST, true
		}
		if stKnown {
			reason = rt.Or(reason, st.IsZero())
			if fExpiry.asked && fExpiry.present {
				reason = rt.Or(reason, rt.And(rt.Not(vExpiry.IsZero()), rt.Not(vExpiry.After(st))))
			}
		}
	}
	if pl, ok := decodedOf(env.Payload); ok {
		reason = rt.Or(reason, len(pl) == 0)
	}
	if sg, ok := decodedOf(env.Signature); ok {
		reason = rt.Or(reason, len(sg) == 0)
	}
	chainOK := len(chainRawJ) > 0
	for _, pe := range chainParseErrJ {
		chainOK = chainOK && !pe
	}
	reason = rt.Or(reason, !chainOK)
	if chainOK && chainCallsJ >= 1 {
		reason = rt.Or(reason, rt.Not(chainVerdictJ))
		if fAlg.asked {
			leaf := rt.Havoc[*x509.Certificate]("cert0")
			reason = rt.Or(reason, jwsAlgRow(vAlg) != rt.AlgRow(rt.KeyInfo(leaf.PublicKey)))
		}
	}
	rt.Assert(reason, "C07.jws.rejects.only.for.a.listed.reason")
}

func checkAcceptedJWS(env *jwsEnvelope, c *signature.EnvelopeContent) {
	h := theHeader()
	rt.Assert(rawLenJ > 0, "C07.jws.raw.present")
	rt.Assert(structDecoded && !structErr && h != nil, "C07.jws.header.decoded")
	if h == nil {
		return
	}
	if foldIdx >= 0 && foldOverrides {
		// a place that must be unreachable: accepted although a specified field shows what a case variant holds
		if !readFromOwnKey(h) {
			rt.Assert(false, "C07.jws.specified.header.read.only.from.its.own.key")
		}
	}
	// decide everything the code did not look at
	alg, cty, scheme, crit, exp, stX, stA := h.Algorithm, h.ContentType, h.SigningScheme, h.Critical, h.Expiry, h.SigningTime, h.AuthenticSigningTime
	pl, plOK := decodedOf(env.Payload)
	sg, sgOK := decodedOf(env.Signature)
	rt.Assert(plOK && sgOK, "C07.jws.texts.decoded")
	rt.Assert(rt.And(len(pl) > 0, len(sg) > 0), "C07.jws.nonempty.payload.and.signature")
	row := jwsAlgRow(alg)
	rt.Assert(row != 0, "C07.jws.alg.one.of.six")
	isX509, isSA := rt.StrEq(string(scheme), "notary.x509"), rt.StrEq(string(scheme), "notary.x509.signingAuthority")
	rt.Assert(rt.Or(isX509, isSA), "C07.jws.scheme.one.of.two")
	rt.Assert(len(crit) > 0 && inList(crit, kScheme), "C07.jws.scheme.critical")
	rt.Assert(rt.Implies(isSA, inList(crit, kAuthST)), "C07.jws.authentic.signing.time.critical")
	// signing time from the header that belongs to the scheme
	rt.Assert(rt.Implies(isX509, stX != nil), "C07.jws.signing.time.present")
	rt.Assert(rt.Implies(isSA, stA != nil), "C07.jws.authentic.signing.time.present")
	st := time.Time{}
	switch {
	case stX != nil && stA != nil:
		st = rt.IteTime(isSA, *stA, *stX)
	case stX != nil:
		st = *stX
		rt.Assert(isX509, "C07.jws.time.header.of.scheme")
	case stA != nil:
		st = *stA
		rt.Assert(isSA, "C07.jws.time.header.of.scheme.sa")
	}
	rt.Assert(rt.Not(st.IsZero()), "C07.jws.signing.time.nonzero")
	rt.Assert(c.SignerInfo.SignedAttributes.SigningTime.Equal(st), "C07.jws.signing.time.of.scheme")
	if exp != nil {
		rt.Assert(rt.Or(exp.IsZero(), exp.After(st)), "C07.jws.expiry.after.signing.time")
		rt.Assert(rt.Or(exp.IsZero(), inList(crit, kExpiry)), "C07.jws.expiry.critical")
		rt.Assert(c.SignerInfo.SignedAttributes.Expiry.Equal(*exp), "C07.jws.expiry")
	} else {
		rt.Assert(c.SignerInfo.SignedAttributes.Expiry.IsZero(), "C07.jws.expiry.absent")
	}
	// every crit entry names a present header
	_ = len(theExt)
	for _, e := range crit {
		named := rt.Or(rt.StrEq(e, kScheme), rt.Or(rt.And(rt.StrEq(e, kAuthST), stA != nil), rt.And(rt.StrEq(e, kExpiry), exp != nil)))
		rt.Assert(rt.Or(named, isPresentExt(e)), "C07.jws.crit.names.present.header")
	}
	// chain
	chainOK := len(chainRawJ) > 0
	for _, pe := range chainParseErrJ {
		chainOK = chainOK && !pe
	}
	rt.Assert(chainOK, "C07.jws.chain.wellformed")
	rt.Assert(chainCallsJ >= 1 && chainTimeNilJ && len(chainArgsJ) == len(chainRawJ) && chainVerdictJ, "C07.jws.chain.validated")
	if chainOK {
		leaf := rt.Havoc[*x509.Certificate]("cert0")
		rt.Assert(row == rt.AlgRow(rt.KeyInfo(leaf.PublicKey)), "C07.jws.alg.matches.leaf.key")
		rt.Assert(len(c.SignerInfo.CertificateChain) == len(chainRawJ), "C07.jws.chain.len")
		if len(c.SignerInfo.CertificateChain) == len(chainRawJ) {
			for i := range chainRawJ {
				rt.Assert(c.SignerInfo.CertificateChain[i] == rt.Havoc[*x509.Certificate]("cert"+string(rune('0'+i))) && chainArgsJ[i] == c.SignerInfo.CertificateChain[i], "C07.jws.chain.order")
			}
		}
	}
	// returned fields are the decoding of exactly these fields
	rt.Assert(rt.BytesEq(c.Payload.Content, pl), "C07.jws.payload")
	rt.Assert(rt.StrEq(c.Payload.ContentType, cty), "C07.jws.cty")
	rt.Assert(rt.BytesEq(c.SignerInfo.Signature, sg), "C07.jws.signature")
	rt.Assert(int(c.SignerInfo.SignatureAlgorithm) == row, "C07.jws.alg")
	rt.Assert(rt.StrEq(string(c.SignerInfo.SignedAttributes.SigningScheme), string(scheme)), "C07.jws.scheme")
	rt.Assert(rt.StrEq(c.SignerInfo.UnsignedAttributes.SigningAgent, env.Header.SigningAgent), "C07.jws.agent")
	rt.Assert(rt.BytesEq(c.SignerInfo.UnsignedAttributes.TimestampSignature, env.Header.TimestampSignature), "C07.jws.tst")
	// ---- C13
	attrs := c.SignerInfo.SignedAttributes.ExtendedAttributes
	want := 0
	for i := range extKeys {
		if extFld[i].present {
			want++
		}
	}
	rt.Assert(len(attrs) == want, "C13.jws.count")
	for i, ek := range extKeys {
		if !extFld[i].present {
			continue
		}
		found := 0
		for _, at := range attrs {
			ks, isText := at.Key.(string)
			rt.Assert(isText, "C13.jws.key.text")
			if isText && rt.Same(ks, ek) {
				found++
				rt.Assert(rt.Same(at.Value, extVal[i]), "C13.jws.value.unchanged")
				if numbersModel {
					if _, isNum := at.Value.(float64); isNum {
						// "its value unchanged": the float64 handed out must be the number the signer wrote
						rt.AssertKnown(extNumExact[i], "C13.jws.number.exact", "F12", rt.Not(extNumExact[i]))
					}
				}
				rt.Assert(rt.Iff(at.Critical, inList(crit, ek)), "C13.jws.critical.iff.listed")
			}
		}
		rt.Assert(found == 1, "C13.jws.each.once")
	}
}
