//go:build verif

// C01 (COSE) — whenever base.Envelope.Verify succeeds, the signature primitive answered "valid" for
// (key = public key of the certificate parsed from chain element 0, hash = the table's hash of the declared algorithm,
// message = the Sig_structure built from exactly this message's raw protected bytes and payload, signature = this
// message's signature), and the returned content is the decoding of those same fields (checkAcceptedCOSE); Content()
// afterwards returns an equal value; nothing in the message object was written.
//verif:pkg signature/cose
//verif:include cose_env.go
//verif:include cose_content.go
//verif:harness H_C01_cose_verify
//verif:harness H_C01_cose_verify_after thorough-only
//verif:harness H_C01_cose_verify_headers thorough-only
package cose

import (
	"crypto/x509"

	rt "github.com/notaryproject/notation-core-go/internal/zzverifrt"
	"github.com/notaryproject/notation-core-go/signature/internal/base"
)

func H_C01_cose_verify()         { focusHeaders = false; verifyCOSE() }

// the same on an object on which Content() or Verify() has been called before (the object is stateful)
var statefulC bool

func H_C01_cose_verify_after() { statefulC = true; focusHeaders = false; verifyCOSE() }
func H_C01_cose_verify_headers() { focusHeaders = true; verifyCOSE() }

func verifyCOSE() {
	msg := buildMessage(true)
	// a parsed message carries the protected bucket as it was on the wire: at least one byte (go-cose UnmarshalFromRaw)
	rt.Assume(len(msg.Headers.RawProtected) > 0)
	raw := rt.Atom("raw")
	rawLen = len(raw)
	payload0, sig0, rawp0 := msg.Payload, msg.Signature, msg.Headers.RawProtected
	e := &base.Envelope{Envelope: &envelope{base: msg}, Raw: raw}
	// the object is stateful: what was called on it before must not matter (content extraction is allowed on an
	// unverified envelope and is what callers do first to pick a trust policy)
	if statefulC {
		switch rt.Choose("prior.call", 2) {
		case 0:
			e.Content()
		case 1:
			e.Verify()
		}
	}
	c, err := e.Verify()
	// the message object is not written by verification
	rt.Assert(rt.Same(payload0, msg.Payload) && rt.Same(sig0, msg.Signature) && rt.Same([]byte(rawp0), []byte(msg.Headers.RawProtected)), "C01.cose.message.unchanged")
	if err != nil {
		rt.Assert(c == nil, "C01.cose.nil.on.error")
		// conversely (C07): content extractable and the primitive answered "valid" for exactly this message under the leaf
		// key => verification must not have failed
		if len(vrfLog) > 0 && chainAsked && chainIsList && len(chainRaw) > 0 && !chainParseErr[0] {
			if c0, cerr := e.Content(); cerr == nil && c0 != nil {
				leaf := rt.Havoc[*x509.Certificate]("cert0")
				a, _ := hAlg.val.(int64)
				row := algRowOf(int(a))
				kind, _ := rt.KeyInfo(leaf.PublicKey)
				held := false
				for _, v := range vrfLog {
					if !rt.Same(v.key, leaf.PublicKey) || !rt.Same(v.sig, msg.Signature) || v.pss != (kind == rt.KindRSA) {
						continue
					}
					for _, t := range tbsLog {
						if rt.Same(t.out, v.content) && rt.Same(t.protected, []byte(msg.Headers.RawProtected)) && rt.Same(t.payload, msg.Payload) {
							held = rt.Or(held, rt.And(v.valid, v.hash == rt.HashRow(row)))
						}
					}
				}
				rt.Assert(rt.Not(held), "C07.cose.valid.signature.is.accepted")
			}
		}
		return
	}
	checkAcceptedCOSE(msg, c)
	if !(chainAsked && chainIsList && len(chainRaw) > 0 && !chainParseErr[0]) {
		rt.Assert(false, "C01.cose.leaf.parsed")
		return
	}
	leaf := rt.Havoc[*x509.Certificate]("cert0")
	a, _ := hAlg.val.(int64)
	row := algRowOf(int(a))
	// the primitive said "valid" about exactly (leaf key, table hash, Sig_structure(raw protected, payload), signature)
	held := false
	for _, v := range vrfLog {
		if !rt.Same(v.key, leaf.PublicKey) {
			continue
		}
		var tbsOK bool
		for _, t := range tbsLog {
			if rt.Same(t.out, v.content) {
				tbsOK = rt.Same(t.protected, []byte(msg.Headers.RawProtected)) && rt.Same(t.payload, msg.Payload)
			}
		}
		if tbsOK && rt.Same(v.sig, msg.Signature) {
			held = rt.Or(held, rt.And(v.valid, v.hash == rt.HashRow(row)))
			// the primitive must be the one of the declared algorithm's family
			kind, _ := rt.KeyInfo(leaf.PublicKey)
			rt.Assert(v.pss == (kind == rt.KindRSA), "C01.cose.primitive.family")
		}
	}
	rt.Assert(held, "C01.cose.signed.by.leaf.key")
	// content extraction after a successful verification gives an identical result
	c2, err2 := e.Content()
	rt.Assert(err2 == nil && c2 != nil, "C07.cose.content.after.verify")
	if c2 != nil {
		same := rt.BytesEq(c2.Payload.Content, c.Payload.Content)
		same = rt.And(same, rt.StrEq(c2.Payload.ContentType, c.Payload.ContentType))
		same = rt.And(same, c2.SignerInfo.SignatureAlgorithm == c.SignerInfo.SignatureAlgorithm)
		same = rt.And(same, c2.SignerInfo.SignedAttributes.SigningTime.Equal(c.SignerInfo.SignedAttributes.SigningTime))
		same = rt.And(same, c2.SignerInfo.SignedAttributes.Expiry.Equal(c.SignerInfo.SignedAttributes.Expiry))
		same = rt.And(same, rt.StrEq(string(c2.SignerInfo.SignedAttributes.SigningScheme), string(c.SignerInfo.SignedAttributes.SigningScheme)))
		same = rt.And(same, rt.BytesEq(c2.SignerInfo.Signature, c.SignerInfo.Signature))
		same = rt.And(same, len(c2.SignerInfo.CertificateChain) == len(c.SignerInfo.CertificateChain))
		same = rt.And(same, len(c2.SignerInfo.SignedAttributes.ExtendedAttributes) == len(c.SignerInfo.SignedAttributes.ExtendedAttributes))
		rt.Assert(same, "C07.cose.content.equals.verify")
	}
}
