//go:build verif

// C07 / C13 / C01 (COSE, verify side) — base.Envelope.Content and Verify on an ARBITRARY decoded Sign1Message:
// every specified protected header absent or present with a value of the right or a wrong dynamic type, times with
// arbitrary instants and arbitrary CBOR tags, a crit list of 0..2 (thorough 0..3) arbitrary labels, 0..2 further headers with
// text or integer labels, arbitrary unprotected bucket, arbitrary chain of 0..2 certificates. Presence and kind of each
// header are decided lazily, when the code first looks (rt.LazyMap). The reference is DESIGN.md appendix A.4.
//verif:pkg signature/cose
//verif:include cose_env.go
//verif:harness H_C07_cose_content
//verif:harness H_C07_cose_unprotected
package cose

import (
	"crypto/x509"
	"time"

	gocose "github.com/veraison/go-cose"

	rt "github.com/notaryproject/notation-core-go/internal/zzverifrt"
	"github.com/notaryproject/notation-core-go/signature"
	"github.com/notaryproject/notation-core-go/signature/internal/base"
)

const (
	lblExpiry  = "io.cncf.notary.expiry"
	lblScheme  = "io.cncf.notary.signingScheme"
	lblSigTime = "io.cncf.notary.signingTime"
	lblAuthST  = "io.cncf.notary.authenticSigningTime"
)

// ghost description of the protected bucket (filled when the generator runs): presence is decided when the code can
// first observe the key; the dynamic type of each value is decided when the code (or the reference) first inspects it.
type hdr struct {
	asked   bool
	present bool
	val     any
}

var (
	hAlg, hCrit, hCty, hScheme, hSigTime, hAuthST, hExpiry hdr
	extraKeys                                             []any
	extraHdr                                              []hdr
)

func hdrFor(k any) (*hdr, string) {
	switch k {
	case any(int64(1)):
		return &hAlg, "alg"
	case any(int64(2)):
		return &hCrit, "crit"
	case any(int64(3)):
		return &hCty, "cty"
	case any(lblScheme):
		return &hScheme, "scheme"
	case any(lblSigTime):
		return &hSigTime, lblSigTime
	case any(lblAuthST):
		return &hAuthST, lblAuthST
	case any(lblExpiry):
		return &hExpiry, lblExpiry
	}
	for i, ek := range extraKeys {
		if rt.Same(ek, k) {
			return &extraHdr[i], "extra" + string(rune('0'+i))
		}
	}
	return nil, ""
}

//verif:iface alg.value int64 string
//verif:iface cty.value string int64
//verif:iface scheme.value string int64
//verif:iface Time.value time.Time string
//verif:iface expiry.value time.Time string
//verif:iface crit.value []any string
//verif:iface crit.value.[]interface{}[ string int64 bool
//verif:slicelen crit.value.[]interface{} 2 2
//verif:iface extra0.value string
//verif:iface extra1.value string
//verif:iface extra string
func genProtected(k any) (any, bool) {
	h, name := hdrFor(k)
	if h == nil {
		return nil, false
	}
	h.asked = true
	h.present = rt.Choose(name+".present", 2) == 1
	if !h.present {
		return nil, false
	}
	h.val = rt.Havoc[any](name + ".value")
	if h == &hSigTime || h == &hAuthST || h == &hExpiry {
		tagOf[name] = rt.Int(name + ".tag")
		rt.Assume(tagOf[name] >= -1) // -1: the raw item carries no tag
	}
	return h.val, true
}

// view of a header value once its dynamic type is known
func asString(h hdr) (string, bool) {
	if !h.present || !rt.Resolved(h.val) {
		return "", false
	}
	s, ok := h.val.(string)
	return s, ok
}
func asTime(h hdr) (time.Time, bool) {
	if !h.present || !rt.Resolved(h.val) {
		return time.Time{}, false
	}
	t, ok := h.val.(time.Time)
	return t, ok
}

// the unprotected bucket, decided lazily as well
var (
	unUniverse                = []any{int64(33), "io.cncf.notary.signingAgent", "io.cncf.notary.timestampSignature"}
	chainAsked                bool
	chainIsList, chainBadType bool
	agentVal                  string
	agentSet, tstSet          bool
	tstVal                    []byte
)

func genUnprotected(k any) (any, bool) {
	switch k {
	case any(int64(33)):
		chainAsked = true
		// absent | a single byte string | a list: empty, [c0], [c0 c1], with a text element, with an unparsable element
		opt := 0
		if simpleUnprotected {
			opt = 3
		} else if focusHeaders {
			opt = []int{0, 3, 4}[rt.Choose("x5chain", 3)] // absent, [c0], [c0 c1]; malformed forms are explored by the unprotected-bucket harness
		} else {
			opt = rt.Choose("x5chain", 8)
		}
		switch opt {
		case 0:
			return nil, false
		case 1:
			return rt.Atom("x5chain.single"), true
		}
		chainIsList = true
		certs := []any{}
		add := func(i int, parseErr bool) {
			raw := rt.Atom("chain" + string(rune('0'+i)) + ".raw")
			chainRaw, chainParseErr = append(chainRaw, raw), append(chainParseErr, parseErr)
			certs = append(certs, raw)
		}
		switch opt {
		case 3:
			add(0, false)
		case 4:
			add(0, false)
			add(1, false)
		case 5:
			add(0, false)
			certs = append(certs, rt.AtomString("chain.text"))
			chainRaw, chainParseErr = append(chainRaw, nil), append(chainParseErr, true)
			chainBadType = true
		case 6:
			add(0, true)
		case 7:
			add(0, false)
			add(1, true)
		}
		return certs, true
	case any("io.cncf.notary.signingAgent"):
		if simpleUnprotected {
			return nil, false
		}
		if focusHeaders {
			unsignedBoth = rt.Choose("unsigned.present", 2) == 1
		}
		if (focusHeaders && unsignedBoth) || (!focusHeaders && rt.Choose("agent.present", 2) == 1) {
			agentVal, agentSet = rt.AtomString("agent"), true
			return agentVal, true
		}
	case any("io.cncf.notary.timestampSignature"):
		if simpleUnprotected {
			return nil, false
		}
		if (focusHeaders && unsignedBoth) || (!focusHeaders && rt.Choose("tst.present", 2) == 1) {
			tstVal, tstSet = rt.Atom("timestamp.token"), true
			return tstVal, true
		}
	}
	return nil, false
}

// focusHeaders: the protected bucket is arbitrary and the unprotected one takes its few well-formed shapes;
// otherwise the protected bucket is a fixed conforming one (with symbolic values) and the unprotected one is arbitrary.
var plainPrior bool // C20: the previous message is a plain conforming one (PS256, no further header)
var simpleUnprotected bool // only the plain well-formed shape: one certificate, no unsigned attributes
var focusHeaders = true
var unsignedBoth bool

func buildFixedProtected() {
	alg, cty, st := rt.Int64("alg.value"), rt.AtomString("cty.value"), rt.Time(lblSigTime+".value")
	if plainPrior {
		alg = -37 // PS256
	}
	hAlg, hCty = hdr{true, true, alg}, hdr{true, true, cty}
	hScheme = hdr{true, true, "notary.x509"}
	hSigTime = hdr{true, true, st}
	hCrit = hdr{true, true, []any{lblScheme}}
	hAuthST.asked, hExpiry.asked = true, true
	tagOf[lblSigTime] = 1
	protectedUniverse = []any{int64(1), int64(2), int64(3), lblScheme, lblSigTime}
	theProtected = gocose.ProtectedHeader{int64(1): alg, int64(2): hCrit.val, int64(3): cty, lblScheme: "notary.x509", lblSigTime: st}
	// optionally one further header with an arbitrary integer label (it may be 33, the label x5chain has in the unprotected
	// bucket) whose value looks like a certificate list: a signed header that must stay a mere extended attribute
	if !plainPrior && rt.Choose("further.header", 2) == 1 {
		lbl := rt.Int64("extra1.label")
		rt.Assume(rt.And(lbl != 1, rt.And(lbl != 2, lbl != 3)))
		foreignRaw = rt.Atom("further.header.cert.raw")
		val := []any{foreignRaw}
		extraKeys, extraHdr = []any{lbl}, []hdr{{true, true, val}}
		theProtected[lbl] = val
		protectedUniverse = append(protectedUniverse, lbl)
	}
}

var foreignRaw []byte

func buildMessage(payloadMayBeNil bool) *gocose.Sign1Message {
	if !focusHeaders {
		buildFixedProtected()
		msg := &gocose.Sign1Message{Signature: rt.Atom("signature"), Payload: rt.Atom("payload")}
		msg.Headers.Protected = theProtected
		msg.Headers.RawProtected = rt.Atom("rawprotected")
		msg.Headers.Unprotected = rt.LazyMap(unUniverse, genUnprotected)
		return msg
	}
	// further headers with a text label / an integer label, different from every specified label
	// (quick tier: one further header of either kind; thorough: one of each)
	ex0 := rt.AtomString("extra0.label")
	for _, s := range []string{lblExpiry, lblScheme, lblSigTime, lblAuthST} {
		rt.Assume(rt.Not(rt.StrEq(ex0, s)))
	}
	ex1 := rt.Int64("extra1.label")
	rt.Assume(rt.And(ex1 != 1, rt.And(ex1 != 2, ex1 != 3)))
	if rt.Bound("further_headers_max", 1, 2) == 2 {
		extraKeys = []any{ex0, ex1}
	} else if rt.Choose("extra.kind", 2) == 0 {
		extraKeys = []any{ex0}
	} else {
		extraKeys = []any{ex1}
	}
	extraHdr = make([]hdr, len(extraKeys))
	protectedUniverse = append([]any{int64(1), int64(2), int64(3), lblScheme, lblSigTime, lblAuthST, lblExpiry}, extraKeys...)
	theProtected = rt.LazyMap(protectedUniverse, genProtected)

	msg := &gocose.Sign1Message{Signature: rt.Atom("signature"), Payload: rt.Atom("payload")}
	if payloadMayBeNil && rt.Choose("payload.nil", 2) == 1 {
		msg.Payload = nil
	}
	msg.Headers.Protected = theProtected
	msg.Headers.RawProtected = rt.Atom("rawprotected")
	msg.Headers.Unprotected = rt.LazyMap(unUniverse, genUnprotected)
	return msg
}

// critList: the crit header as a list, once the code has looked at it that way
func critList() ([]any, bool) {
	if !hCrit.present || !rt.Resolved(hCrit.val) {
		return nil, false
	}
	l, ok := hCrit.val.([]any)
	return l, ok
}

// critHasText / critHasInt: fork-free membership among the entries whose dynamic type has been fixed
func critHasText(list []any, l string) bool {
	r := false
	for _, e := range list {
		if rt.Resolved(e) {
			if s, ok := e.(string); ok {
				r = rt.Or(r, rt.StrEq(s, l))
			}
		}
	}
	return r
}
func critHasInt(list []any, l int64) bool {
	r := false
	for _, e := range list {
		if rt.Resolved(e) {
			if v, ok := e.(int64); ok {
				r = rt.Or(r, v == l)
			}
		}
	}
	return r
}

var rawLen int

func H_C07_cose_content() {
	msg := buildMessage(false)
	raw := rt.Atom("raw")
	rawLen = len(raw)
	e := &base.Envelope{Envelope: &envelope{base: msg}, Raw: raw}
	c, err := e.Content()
	checkContentCOSE(msg, c, err)
}

// the unprotected bucket (certificate chain in all its malformed shapes, signing agent, timestamp token) under a
// conforming protected bucket
func H_C07_cose_unprotected() {
	focusHeaders = false
	H_C07_cose_content()
}

func algRowOf(a int) int {
	return rt.IteInt(a == -37, 1, rt.IteInt(a == -38, 2, rt.IteInt(a == -39, 3, rt.IteInt(a == -7, 4, rt.IteInt(a == -35, 5, rt.IteInt(a == -36, 6, 0))))))
}

// checkContentCOSE: appendix A.4 for COSE, three-valued.
//   - accepted: every rule must hold (the reference inspects everything; what the code never looked at is decided now).
//   - rejected: the code may reject only for a reason of A.4, and it can only have seen a reason among the headers it looked
//     at; so one of the listed reasons must be visible among the decided headers, or the case is an open one.
func checkContentCOSE(msg *gocose.Sign1Message, c *signature.EnvelopeContent, err error) {
	accepted := err == nil
	rt.Assert((c != nil) == accepted, "C07.cose.content.iff.noerror")
	if accepted {
		checkAcceptedCOSE(msg, c)
		return
	}
	reason := rawLen == 0 // an object without raw bytes reports that no signature is present
	reason = rt.Or(reason, len(msg.Payload) == 0)
	reason = rt.Or(reason, len(msg.Signature) == 0)
	wrong := func(h hdr, isRight func(any) bool) bool { // asked and (absent, or looked at and of a wrong type)
		if !h.asked {
			return false
		}
		if !h.present {
			return true
		}
		return rt.Resolved(h.val) && !isRight(h.val)
	}
	isStr := func(v any) bool { _, ok := v.(string); return ok }
	isInt := func(v any) bool { _, ok := v.(int64); return ok }
	isTime := func(v any) bool { _, ok := v.(time.Time); return ok }
	isList := func(v any) bool { _, ok := v.([]any); return ok }
	reason = rt.Or(reason, wrong(hCty, isStr))
	reason = rt.Or(reason, wrong(hAlg, isInt))
	reason = rt.Or(reason, wrong(hScheme, isStr))
	reason = rt.Or(reason, wrong(hCrit, isList))
	if hAlg.present && rt.Resolved(hAlg.val) {
		if a, ok := hAlg.val.(int64); ok {
			reason = rt.Or(reason, algRowOf(int(a)) == 0)
		}
	}
	isX509, isSA, schemeKnown := false, false, false
	if s, ok := asString(hScheme); ok {
		schemeKnown = true
		isX509, isSA = rt.StrEq(s, "notary.x509"), rt.StrEq(s, "notary.x509.signingAuthority")
		reason = rt.Or(reason, rt.Not(rt.Or(isX509, isSA)))
	}
	if list, ok := critList(); ok {
		reason = rt.Or(reason, len(list) == 0)
		for _, en := range list {
			if !rt.Resolved(en) {
				continue
			}
			switch v := en.(type) {
			case string, int64:
				_, named := theProtected[v]
				reason = rt.Or(reason, !named)
			default:
				reason = true
			}
		}
		reason = rt.Or(reason, rt.Not(critHasText(list, lblScheme)))
		if schemeKnown {
			reason = rt.Or(reason, rt.And(isSA, rt.Not(critHasText(list, lblAuthST))))
		}
		if hExpiry.asked && hExpiry.present {
			reason = rt.Or(reason, rt.Not(critHasText(list, lblExpiry)))
		}
	}
	// times: the header of the scheme must be a tag-1 time; an expiry, if present, too
	badTime := func(h hdr, label string) bool {
		if wrong(h, isTime) {
			return true
		}
		if _, ok := asTime(h); ok {
			return tagOf[label] != 1
		}
		return false
	}
	if schemeKnown {
		reason = rt.Or(reason, rt.And(isX509, badTime(hSigTime, lblSigTime)))
		reason = rt.Or(reason, rt.And(isSA, badTime(hAuthST, lblAuthST)))
	}
	if hExpiry.asked && hExpiry.present {
		reason = rt.Or(reason, badTime(hExpiry, lblExpiry))
	}
	stX, okX := asTime(hSigTime)
	stA, okA := asTime(hAuthST)
	if schemeKnown {
		if okX {
			reason = rt.Or(reason, rt.And(isX509, stX.IsZero()))
		}
		if okA {
			reason = rt.Or(reason, rt.And(isSA, stA.IsZero()))
		}
		if ex, ok := asTime(hExpiry); ok {
			if okX {
				reason = rt.Or(reason, rt.And(isX509, rt.And(rt.Not(ex.IsZero()), rt.Not(ex.After(stX)))))
			}
			if okA {
				reason = rt.Or(reason, rt.And(isSA, rt.And(rt.Not(ex.IsZero()), rt.Not(ex.After(stA)))))
			}
		}
	}
	reason = rt.Or(reason, rt.Or(len(msg.Headers.RawProtected) == 0, rt.Or(rawProtectedDecodes == 2, rawViewErr)))
	if chainAsked {
		chainOK := chainIsList && !chainBadType && len(chainRaw) > 0
		for _, pe := range chainParseErr {
			chainOK = chainOK && !pe
		}
		reason = rt.Or(reason, !chainOK)
		if chainOK && chainCalls >= 1 {
			reason = rt.Or(reason, rt.Not(chainVerdict))
			leaf := rt.Havoc[*x509.Certificate]("cert0")
			if hAlg.present && rt.Resolved(hAlg.val) {
				if a, ok := hAlg.val.(int64); ok {
					reason = rt.Or(reason, algRowOf(int(a)) != rt.AlgRow(rt.KeyInfo(leaf.PublicKey)))
				}
			}
		}
	}
	rt.Assert(reason, "C07.cose.rejects.only.for.a.listed.reason")
}

func checkAcceptedCOSE(msg *gocose.Sign1Message, c *signature.EnvelopeContent) {
	_ = len(theProtected) // decide every header the code did not look at
	rt.Assert(rawLen > 0, "C07.cose.raw.present")
	rt.Assert(rt.And(len(msg.Payload) > 0, len(msg.Signature) > 0), "C07.cose.nonempty.payload.and.signature")
	cty, ctyOK := hCty.val.(string)
	rt.Assert(hCty.present && ctyOK, "C07.cose.cty.text")
	a, algOK := hAlg.val.(int64)
	rt.Assert(hAlg.present && algOK, "C07.cose.alg.int")
	algRow := algRowOf(int(a))
	rt.Assert(algRow != 0, "C07.cose.alg.one.of.six")
	scheme, schemeOK := hScheme.val.(string)
	rt.Assert(hScheme.present && schemeOK, "C07.cose.scheme.text")
	isX509, isSA := rt.StrEq(scheme, "notary.x509"), rt.StrEq(scheme, "notary.x509.signingAuthority")
	rt.Assert(rt.Or(isX509, isSA), "C07.cose.scheme.one.of.two")
	list, listOK := hCrit.val.([]any)
	rt.Assert(hCrit.present && listOK && len(list) > 0, "C07.cose.crit.nonempty.list")
	for _, en := range list {
		switch v := en.(type) {
		case string, int64:
			_, named := theProtected[v]
			rt.Assert(named, "C07.cose.crit.names.present.header")
		default:
			rt.Assert(false, "C07.cose.crit.label.type")
		}
	}
	rt.Assert(critHasText(list, lblScheme), "C07.cose.scheme.critical")
	rt.Assert(rt.Implies(isSA, critHasText(list, lblAuthST)), "C07.cose.authentic.signing.time.critical")
	if hExpiry.present {
		rt.Assert(critHasText(list, lblExpiry), "C07.cose.expiry.critical")
	}
	// signing time from the header that belongs to the scheme, tag 1
	stX, okX := hSigTime.val.(time.Time)
	stA, okA := hAuthST.val.(time.Time)
	rt.Assert(rt.Implies(isX509, hSigTime.present && okX && tagOf[lblSigTime] == 1), "C07.cose.signing.time.tag1")
	rt.Assert(rt.Implies(isSA, hAuthST.present && okA && tagOf[lblAuthST] == 1), "C07.cose.authentic.signing.time.tag1")
	st := rt.IteTime(isSA, stA, stX)
	rt.Assert(rt.Not(st.IsZero()), "C07.cose.signing.time.nonzero")
	rt.Assert(c.SignerInfo.SignedAttributes.SigningTime.Equal(st), "C07.cose.signing.time.of.scheme")
	if hExpiry.present {
		ex, okE := hExpiry.val.(time.Time)
		rt.Assert(okE && tagOf[lblExpiry] == 1, "C07.cose.expiry.tag1")
		rt.Assert(rt.Or(ex.IsZero(), ex.After(st)), "C07.cose.expiry.after.signing.time")
		rt.Assert(c.SignerInfo.SignedAttributes.Expiry.Equal(ex), "C07.cose.expiry")
	} else {
		rt.Assert(c.SignerInfo.SignedAttributes.Expiry.IsZero(), "C07.cose.expiry.absent")
	}
	// chain
	chainOK := chainAsked && chainIsList && !chainBadType && len(chainRaw) > 0
	for _, pe := range chainParseErr {
		chainOK = chainOK && !pe
	}
	rt.Assert(chainOK, "C07.cose.chain.wellformed")
	rt.Assert(chainCalls >= 1 && chainTimeNil && len(chainArgs) == len(chainRaw) && chainVerdict, "C07.cose.chain.validated")
	if chainOK {
		leaf := rt.Havoc[*x509.Certificate]("cert0")
		rt.Assert(algRow == rt.AlgRow(rt.KeyInfo(leaf.PublicKey)), "C07.cose.alg.matches.leaf.key")
		rt.Assert(len(c.SignerInfo.CertificateChain) == len(chainRaw), "C07.cose.chain.len")
		if len(c.SignerInfo.CertificateChain) == len(chainRaw) {
			for i := range chainRaw {
				rt.Assert(c.SignerInfo.CertificateChain[i] == rt.Havoc[*x509.Certificate]("cert"+string(rune('0'+i))) && chainArgs[i] == c.SignerInfo.CertificateChain[i], "C07.cose.chain.order")
			}
		}
	}
	// returned fields are the decoding of exactly these headers
	rt.Assert(rt.BytesEq(c.Payload.Content, msg.Payload), "C07.cose.payload")
	rt.Assert(rt.StrEq(c.Payload.ContentType, cty), "C07.cose.cty")
	rt.Assert(rt.BytesEq(c.SignerInfo.Signature, msg.Signature), "C07.cose.signature")
	rt.Assert(int(c.SignerInfo.SignatureAlgorithm) == algRow, "C07.cose.alg")
	rt.Assert(rt.StrEq(string(c.SignerInfo.SignedAttributes.SigningScheme), scheme), "C07.cose.scheme")
	_ = len(msg.Headers.Unprotected)
	if agentSet {
		rt.Assert(rt.StrEq(c.SignerInfo.UnsignedAttributes.SigningAgent, agentVal), "C07.cose.agent")
	} else {
		rt.Assert(c.SignerInfo.UnsignedAttributes.SigningAgent == "", "C07.cose.agent.absent")
	}
	if tstSet {
		rt.Assert(rt.BytesEq(c.SignerInfo.UnsignedAttributes.TimestampSignature, tstVal), "C07.cose.tst")
	} else {
		rt.Assert(len(c.SignerInfo.UnsignedAttributes.TimestampSignature) == 0, "C07.cose.tst.absent")
	}
	// ---- C13: the extended attributes are exactly the non-specified protected headers, each once, value unchanged,
	// critical iff listed in crit
	attrs := c.SignerInfo.SignedAttributes.ExtendedAttributes
	want := 0
	for i := range extraKeys {
		if extraHdr[i].present {
			want++
		}
	}
	rt.Assert(len(attrs) == want, "C13.cose.count")
	for i, ek := range extraKeys {
		if !extraHdr[i].present {
			continue
		}
		found := 0
		for _, at := range attrs {
			if rt.Same(at.Key, ek) {
				found++
				rt.Assert(rt.Same(at.Value, extraHdr[i].val), "C13.cose.value.unchanged")
				inCrit := false
				if es, isText := ek.(string); isText {
					inCrit = critHasText(list, es)
				} else {
					inCrit = critHasInt(list, ek.(int64))
				}
				rt.Assert(rt.Iff(at.Critical, inCrit), "C13.cose.critical.iff.listed")
			}
		}
		rt.Assert(found == 1, "C13.cose.each.once")
	}
}
