//go:build verif

// Environment of the JWS harnesses (C01, C07, C13 verify side): base64 and JSON are leaves. The JSON text behind the
// protected header is an abstract object (DESIGN.md appendix D) seen through three decodings that must agree: the repo's
// struct view, the repo's map view (extended attributes) and golang-jwt's header map.
//verif:pkg signature/jws
//verif:init github.com/golang-jwt/jwt/v4
//verif:zeroglobal encoding/base64.RawURLEncoding
//verif:zeroglobal encoding/base64.URLEncoding
//verif:stub (*encoding/base64.Encoding).DecodeString -> stubB64Decode
//verif:stub encoding/json.Unmarshal -> stubJSONUnmarshal
//verif:stub (*encoding/json.Decoder).Decode -> stubDecoderDecode
//verif:stub crypto/x509.ParseCertificate -> stubParseCertJWS
//verif:summary github.com/notaryproject/notation-core-go/x509.ValidateCodeSigningCertChain -> sumChainJWS
//verif:stub (crypto.Hash).Available -> stubHashAvailable
//verif:stub (crypto.Hash).New -> stubHashNew
//verif:stub crypto/rsa.VerifyPSS -> stubVerifyPSSJWS
//verif:stub crypto/rsa.VerifyPKCS1v15 -> stubVerifyPKCS1
//verif:stub crypto/ecdsa.Verify -> stubECDSAVerifyJWS
//verif:stub crypto/ed25519.Verify -> stubEd25519Verify
//verif:stub (github.com/golang-jwt/jwt/v4.MapClaims).Valid -> stubClaimsValid
//verif:stub strings.HasPrefix -> stubHasPrefix
//verif:stub strings.ToLower -> stubToLower
//verif:stub strings.EqualFold -> stubEqualFold
//verif:havocfield protected.Algorithm -> genAlg
//verif:havocfield protected.ContentType -> genCty
//verif:havocfield protected.SigningScheme -> genScheme
//verif:havocfield protected.Critical -> genCrit
//verif:havocfield protected.Expiry -> genExpiry
//verif:havocfield protected.SigningTime -> genSigTime
//verif:havocfield protected.AuthenticSigningTime -> genAuthST
//verif:iface extra string float64 bool
package jws

import (
	"crypto"
	"crypto/ecdsa"
	"crypto/ed25519"
	"crypto/rsa"
	"crypto/x509"
	"encoding/base64"
	"encoding/json"
	"hash"
	"math/big"
	"time"

	"github.com/golang-jwt/jwt/v4"

	rt "github.com/notaryproject/notation-core-go/internal/zzverifrt"
	"github.com/notaryproject/notation-core-go/signature"
)

// ---- base64: error or some bytes, a function of the text
type b64Rec struct {
	in  string
	err bool
	out []byte
}

var b64Log []b64Rec

func stubB64Decode(e *base64.Encoding, s string) ([]byte, error) {
	for _, r := range b64Log {
		if rt.Same(r.in, s) {
			if r.err {
				return nil, rt.NewEnvError("base64")
			}
			return r.out, nil
		}
	}
	r := b64Rec{in: s}
	if rt.Choose(rt.Name("b64.err"), 2) == 1 {
		r.err = true
		b64Log = append(b64Log, r)
		return nil, rt.NewEnvError("base64")
	}
	r.out = rt.Atom(rt.Name("b64.decoded"))
	b64Log = append(b64Log, r)
	return r.out, nil
}

func decodedOf(s string) ([]byte, bool) {
	for _, r := range b64Log {
		if rt.Same(r.in, s) {
			return r.out, !r.err
		}
	}
	return nil, false
}

// ---- the abstract JSON object behind the protected header
type fld struct {
	asked, present bool
}

var (
	fAlg, fCty, fScheme, fCrit, fExpiry, fSigTime, fAuthST fld
	vAlg, vCty                                            string
	vScheme                                               signature.SigningScheme
	vCrit                                                 []string
	vExpiry, vSigTime, vAuthST                            *time.Time
	protectedBytes                                        []byte // the JSON text (decoded base64) the views belong to
	structDecoded, structErr                              bool
	theExt                                                map[string]interface{}
	extKeys                                               []string
	extFld                                                []fld
	extVal                                                []any
	jwtHeader                                             map[string]interface{}
)

func genAlg(name string) string { fAlg.asked = true; vAlg = rt.AtomString("alg"); return vAlg }
func genCty(name string) string { fCty.asked = true; vCty = rt.AtomString("cty"); return vCty }
func genScheme(name string) signature.SigningScheme {
	fScheme.asked = true
	vScheme = signature.SigningScheme(rt.AtomString("scheme"))
	return vScheme
}
func genCrit(name string) []string {
	fCrit.asked = true
	n := rt.Choose("crit.len", 1+rt.Bound("crit_len_max", 2, 3))
	for i := 0; i < n; i++ {
		vCrit = append(vCrit, rt.AtomString("crit"+string(rune('0'+i))))
	}
	fCrit.present = n > 0
	return vCrit
}
func genTimePtr(f *fld, v **time.Time, name string) *time.Time {
	f.asked = true
	if rt.Choose(name+".present", 2) == 1 {
		f.present = true
		t := rt.Time(name)
		*v = &t
	}
	return *v
}
func genExpiry(name string) *time.Time  { return genTimePtr(&fExpiry, &vExpiry, "expiry") }
func genSigTime(name string) *time.Time { return genTimePtr(&fSigTime, &vSigTime, "signingTime") }
func genAuthST(name string) *time.Time  { return genTimePtr(&fAuthST, &vAuthST, "authenticSigningTime") }

var specKeys = []string{"alg", "cty", "crit", "io.cncf.notary.expiry", "io.cncf.notary.signingTime", "io.cncf.notary.signingScheme", "io.cncf.notary.authenticSigningTime"}

// genExtEntry: the map view of the same JSON object. Specified keys are present exactly when the struct view saw them
// (for text fields, where an absent key and an empty text look alike in the struct, presence is decided here).
func genExtEntry(k string) (interface{}, bool) {
	if foldIdx >= 0 && foldOverrides && k == specKeys[foldIdx] {
		// the exactly-keyed member of the field whose struct view is the case variant
		if exactTime != nil {
			return "time", exactPresent
		}
		return exactText, exactPresent
	}
	switch k {
	case "alg":
		if algInMapAsked {
			return vAlg, algInMap
		}
		return vAlg, rt.Choose("alg.in.map", 2) == 1
	case "cty":
		return vCty, rt.Choose("cty.in.map", 2) == 1
	case "io.cncf.notary.signingScheme":
		return string(vScheme), rt.Choose("scheme.in.map", 2) == 1
	case "crit":
		return "crit", len(theHeader().Critical) > 0
	case "io.cncf.notary.expiry":
		return "time", theHeader().Expiry != nil
	case "io.cncf.notary.signingTime":
		return "time", theHeader().SigningTime != nil
	case "io.cncf.notary.authenticSigningTime":
		return "time", theHeader().AuthenticSigningTime != nil
	}
	for i, ek := range extKeys {
		if rt.Same(ek, k) {
			extFld[i].asked = true
			if i == 0 && foldIdx >= 0 {
				extFld[i].present = true // the case variant is a member of the object
			} else {
				extFld[i].present = rt.Choose("extra"+string(rune('0'+i))+".present", 2) == 1
			}
			return extVal[i], extFld[i].present
		}
	}
	return nil, false
}

// ---- letter case. encoding/json matches the keys of a struct target ignoring case (an exact match is preferred for each
// member, but every member is decoded in turn, so the last member that matches a field is what the field ends up
// holding); a map target and golang-jwt's header lookup are exact. With foldModel on, the first further key (extra0) of
// the JSON object may differ from one specified key only in letter case, and the struct view of that field may be
// what that member holds (it comes after the exactly-keyed member, or there is no exactly-keyed member).
var (
	foldModel     bool
	foldDecided   bool
	foldIdx       = -1 // index into specKeys; -1: no such member
	foldOverrides bool
	// the exactly-keyed member of the overridden field, as a case-sensitive reader sees it
	exactPresent bool
	exactText    string     // alg, cty, scheme
	exactTime    *time.Time // the three times
)

func decideFold() {
	if foldDecided || !foldModel {
		return
	}
	foldDecided = true
	foldIdx = rt.Choose("fold.key", 1+len(specKeys)) - 1
	if foldIdx < 0 {
		return
	}
	foldOverrides = rt.Choose("fold.overrides", 2) == 1
	if foldOverrides {
		exactPresent = rt.Choose("fold.exact.present", 2) == 1
		if exactPresent {
			switch specKeys[foldIdx] {
			case "alg", "cty", "io.cncf.notary.signingScheme":
				exactText = rt.AtomString("fold.exact.text")
			case "crit":
			default:
				t := rt.Time("fold.exact.time")
				exactTime = &t
			}
		}
	}
}

// strings.EqualFold(a, b): equal texts, or the case variant against the specified key it folds to
func stubEqualFold(a, b string) bool {
	if foldIdx >= 0 && len(extKeys) > 0 {
		if (rt.Same(a, extKeys[0]) && b == specKeys[foldIdx]) || (rt.Same(b, extKeys[0]) && a == specKeys[foldIdx]) {
			return true
		}
		if rt.Same(a, extKeys[0]) || rt.Same(b, extKeys[0]) {
			return false // it differs from the other specified keys by more than case, and from further keys altogether
		}
	}
	return rt.StrEq(a, b)
}

// genExtEntryMemo: the members of the object are decided once, whichever decoding asks first
type extMemoRec struct {
	key     string
	val     interface{}
	present bool
}

var extMemo []extMemoRec

func genExtEntryMemo(k string) (interface{}, bool) {
	for _, r := range extMemo {
		if rt.Same(r.key, k) {
			return r.val, r.present
		}
	}
	v, present := genExtEntry(k)
	extMemo = append(extMemo, extMemoRec{k, v, present})
	return v, present
}

var headerPtr *jwsProtectedHeader
var jwtView *jwsProtectedHeader
var algInMap, algInMapAsked bool

func theHeader() *jwsProtectedHeader { return headerPtr }

var extrasMax int // set by a harness to lower the bound

// numbersModel: json.Unmarshal into interface{} yields float64 for every JSON number; whether the number written in the
// signed text IS that float64 exactly (12345678901234567890 is not) is a fact about the text, arbitrary per member.
var numbersModel bool
var extNumExact []bool

func setupExtras() {
	if extKeys != nil {
		return
	}
	n := rt.Bound("further_headers_max", 2, 2)
	if extrasMax > 0 && extrasMax < n {
		n = extrasMax
	}
	for i := 0; i < n; i++ {
		k := rt.AtomString("extra" + string(rune('0'+i)) + ".key")
		for _, s := range specKeys {
			rt.Assume(rt.Not(rt.StrEq(k, s)))
		}
		for _, prev := range extKeys {
			rt.Assume(rt.Not(rt.StrEq(k, prev)))
		}
		extKeys = append(extKeys, k)
		extVal = append(extVal, rt.Havoc[any]("extra"+string(rune('0'+i))+".value"))
		extNumExact = append(extNumExact, rt.Bool("extra"+string(rune('0'+i))+".number.exact"))
	}
	extFld = make([]fld, n)
}

// json.Unmarshal, by target type
func stubJSONUnmarshal(data []byte, v any) error {
	switch p := v.(type) {
	case *jwsProtectedHeader:
		decideFold()
		if !structDecoded {
			structDecoded = true
			protectedBytes = data
			// any specified key with a value of the wrong JSON kind, or a text that is not an RFC 3339 time, is an error
			structErr = rt.Choose("protected.json.err", 2) == 1
		} else if !rt.Same(protectedBytes, data) {
			rt.Fail("a second protected header text")
		}
		if structErr {
			return rt.NewEnvError("json")
		}
		rt.HavocInto(p, "protected")
		p.ExtendedAttributes = nil // json:"-"
		headerPtr = p
		return nil
	case *map[string]interface{}:
		decideFold()
		if !structDecoded {
			// golang-jwt decodes the header before the repo does: fix the text the views belong to
			structDecoded = true
			protectedBytes = data
			structErr = rt.Choose("protected.json.err", 2) == 1
		}
		if !rt.Same(protectedBytes, data) {
			rt.Fail("map view of a text other than the protected header")
		}
		if structErr {
			// a text that the struct view rejects may still be a JSON object (wrong kind under a specified key) or not
			return rt.NewEnvError("json")
		}
		if headerPtr == nil {
			// the jwt view: only "alg" is looked up; it is the text the struct view will report
			if jwtHeader == nil {
				jwtView = &jwsProtectedHeader{}
				rt.HavocInto(jwtView, "protected")
				jwtHeader = map[string]interface{}{}
				if foldIdx == 0 && foldOverrides {
					// golang-jwt reads the exactly-keyed member, the struct view reports the case variant
					if exactPresent {
						jwtHeader["alg"] = exactText
						algInMap = true
					}
				} else if rt.Choose("alg.in.map", 2) == 1 {
					jwtHeader["alg"] = jwtView.Algorithm
					algInMap = true
				}
				algInMapAsked = true
			}
			*p = jwtHeader
			return nil
		}
		setupExtras()
		// every decoding yields a NEW map with the same members (the code under test deletes from the map it gets)
		theExt = rt.LazyMap(append(append([]string{}, specKeys...), extKeys...), genExtEntryMemo)
		*p = theExt
		return nil
	}
	if p, ok := v.(*jwsEnvelope); ok && parseEnvelopeHook != nil {
		return parseEnvelopeHook(data, p)
	}
	rt.Fail("unexpected json.Unmarshal target")
	return nil
}

// set by the C09 parse harness: json.Unmarshal of arbitrary bytes into a jwsEnvelope
var parseEnvelopeHook func(data []byte, p *jwsEnvelope) error

// (*json.Decoder).Decode into jwt.MapClaims: the payload is some JSON document; an object (or null) decodes, anything else fails
var claimsDecodeErr, claimsDecoded bool

func stubDecoderDecode(d *json.Decoder, v any) error {
	if _, ok := v.(*jwt.MapClaims); !ok {
		rt.Fail("unexpected Decoder.Decode target")
	}
	if !claimsDecoded {
		claimsDecoded = true
		claimsDecodeErr = rt.Choose("claims.json.err", 2) == 1
	}
	if claimsDecodeErr {
		return rt.NewEnvError("json")
	}
	return nil
}

// ---- certificates and chain validation
var chainRawJ [][]byte
var chainParseErrJ []bool

func stubParseCertJWS(der []byte) (*x509.Certificate, error) {
	for i, r := range chainRawJ {
		if rt.Same(r, der) {
			if chainParseErrJ[i] {
				return nil, rt.NewEnvError("parsecert")
			}
			return rt.Havoc[*x509.Certificate]("cert" + string(rune('0'+i))), nil
		}
	}
	rt.Fail("ParseCertificate on bytes that are not a chain element")
	return nil, nil
}

var chainVerdictJ bool
var chainCallsJ int
var chainArgsJ []*x509.Certificate
var chainTimeNilJ bool

func sumChainJWS(chain []*x509.Certificate, t *time.Time) error {
	chainCallsJ++
	chainArgsJ, chainTimeNilJ = chain, t == nil
	if chainCallsJ == 1 {
		chainVerdictJ = rt.Bool("chain.ok")
	}
	if chainVerdictJ {
		return nil
	}
	return rt.NewEnvError("chain")
}

// ---- hashing and the signature primitives below golang-jwt's signing methods
func stubHashAvailable(h crypto.Hash) bool { return true }

type envHash struct {
	h       crypto.Hash
	written []byte
	n       int
}

func (e *envHash) Write(p []byte) (int, error) { e.written = p; e.n++; return len(p), nil }
func (e *envHash) Reset()                      { e.n = 0 }
func (e *envHash) Size() int                   { return 32 }
func (e *envHash) BlockSize() int              { return 64 }

type digRecJ struct {
	hash    int
	content []byte
	digest  []byte
}

var digLogJ []digRecJ

func (e *envHash) Sum(b []byte) []byte {
	if e.n != 1 || b != nil {
		rt.Fail("hash used in an unexpected way")
	}
	for _, r := range digLogJ {
		if r.hash == int(e.h) && rt.Same(r.content, e.written) {
			return r.digest
		}
	}
	d := rt.Atom(rt.Name("digest"))
	digLogJ = append(digLogJ, digRecJ{int(e.h), e.written, d})
	return d
}
func stubHashNew(h crypto.Hash) hash.Hash { return &envHash{h: h} }

type vrfRecJ struct {
	family  string
	key     crypto.PublicKey
	hash    int
	content []byte
	sig     []byte // RSA: the signature; ECDSA: nil (see r, s)
	r, s    *big.Int
	valid   bool
}

var vrfLogJ []vrfRecJ

func contentOfJ(digest []byte) ([]byte, int) {
	for _, r := range digLogJ {
		if rt.Same(r.digest, digest) {
			return r.content, r.hash
		}
	}
	rt.Fail("primitive called with a digest that the hash leaf did not produce")
	return nil, 0
}
// the primitives are functions of their arguments: the same question gets the same answer
func priorVerdictJ(family string, key any, hash int, content, sig []byte, r, s *big.Int) (bool, bool) {
	for _, x := range vrfLogJ {
		if x.family == family && x.hash == hash && rt.Same(x.key, key) && rt.Same(x.content, content) && rt.Same(x.sig, sig) && sameBig(x.r, r) && sameBig(x.s, s) {
			return x.valid, true
		}
	}
	return false, false
}

func sameBig(a, b *big.Int) bool {
	if a == nil || b == nil {
		return a == b
	}
	return rt.BigEq(a, b)
}

func stubVerifyPSSJWS(pub *rsa.PublicKey, h crypto.Hash, digest []byte, sig []byte, opts *rsa.PSSOptions) error {
	c, dh := contentOfJ(digest)
	v, asked := priorVerdictJ("PS", pub, int(h), c, sig, nil, nil)
	if !asked {
		v = rt.Bool(rt.Name("rsa.pss.valid"))
	}
	rt.Assert(int(h) == dh, "C01.jws.pss.hash.consistent")
	vrfLogJ = append(vrfLogJ, vrfRecJ{family: "PS", key: pub, hash: int(h), content: c, sig: sig, valid: v})
	if v {
		return nil
	}
	return rt.NewEnvError("pss")
}
func stubVerifyPKCS1(pub *rsa.PublicKey, h crypto.Hash, digest []byte, sig []byte) error {
	c, _ := contentOfJ(digest)
	v, asked := priorVerdictJ("RS", pub, int(h), c, sig, nil, nil)
	if !asked {
		v = rt.Bool(rt.Name("rsa.pkcs1.valid"))
	}
	vrfLogJ = append(vrfLogJ, vrfRecJ{family: "RS", key: pub, hash: int(h), content: c, sig: sig, valid: v})
	if v {
		return nil
	}
	return rt.NewEnvError("pkcs1")
}
func stubECDSAVerifyJWS(pub *ecdsa.PublicKey, digest []byte, r, s *big.Int) bool {
	c, dh := contentOfJ(digest)
	v, asked := priorVerdictJ("ES", pub, dh, c, nil, r, s)
	if !asked {
		v = rt.Bool(rt.Name("ecdsa.valid"))
	}
	vrfLogJ = append(vrfLogJ, vrfRecJ{family: "ES", key: pub, hash: dh, content: c, r: r, s: s, valid: v})
	return v
}
func stubEd25519Verify(pub ed25519.PublicKey, msg, sig []byte) bool {
	v, asked := priorVerdictJ("Ed", pub, 0, msg, sig, nil, nil)
	if !asked {
		v = rt.Bool(rt.Name("ed25519.valid"))
	}
	vrfLogJ = append(vrfLogJ, vrfRecJ{family: "Ed", key: pub, content: msg, sig: sig, valid: v})
	return v
}

// golang-jwt's diagnostic "does the token start with 'bearer '" on a decode error: irrelevant text predicates
func stubHasPrefix(s, prefix string) bool { return rt.Bool(rt.Name("hasprefix")) }
func stubToLower(s string) string         { return s }

// jwt's registered-claims validation (exp / nbf / iat against the wall clock): the payload is an arbitrary JSON object,
// so if the library were asked it could say anything. The repo configures the parser not to ask.
var claimsValidCalls int
var claimsInvalid bool

func stubClaimsValid(m jwt.MapClaims) error {
	claimsValidCalls++
	if claimsValidCalls == 1 {
		claimsInvalid = rt.Choose("claims.valid", 2) == 1
	}
	if claimsInvalid {
		return rt.NewEnvError("claims")
	}
	return nil
}
