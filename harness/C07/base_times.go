//go:build verif

// C07 / C16 (base layer, times in ARBITRARY LOCATIONS) — the decoders hand out time.Time values whose location pointer
// depends on the text (RFC 3339 offsets: UTC, Local, or a fresh FixedZone per call) and callers hand in sign requests
// with times in any location. Everywhere else in the harnesses a symbolic instant has the nil (UTC) location, so that a
// comparison of time VALUES (==, !=, struct or map-key equality), which also compares the location pointers, coincides
// with a comparison of INSTANTS (Equal/Before/After). Here the two differ: every time gets one of three locations
// (nil, A, B) independently. Whatever the format-specific envelope reports, base.Envelope.Content/Verify accept only if
// the base-layer rules of the property hold for the INSTANTS (signing time present, expiry absent or strictly later),
// and accept whenever they hold (both directions); base.Envelope.Sign refuses a request whose expiry, after truncation
// to seconds, is not later than the signing time, before the inner envelope is asked to sign.
//verif:pkg signature/internal/base
//verif:harness H_C07_base_times
//verif:harness H_C16_base_sign_times
//verif:stub github.com/notaryproject/notation-core-go/x509.ValidateCodeSigningCertChain -> sumChainLoc
package base

import (
	"crypto/x509"
	"time"

	rt "github.com/notaryproject/notation-core-go/internal/zzverifrt"
	"github.com/notaryproject/notation-core-go/signature"
)

var locA, locB time.Location

// inLoc: the same instant in one of three locations (nil = UTC, A, B)
func inLoc(t time.Time, name string) time.Time {
	switch rt.Choose(name+".loc", 3) {
	case 1:
		return t.In(&locA)
	case 2:
		return t.In(&locB)
	}
	return t
}

type innerLoc struct {
	content   *signature.EnvelopeContent
	signCalls int
	signErr   bool
	raw       []byte
}

func (f *innerLoc) Sign(req *signature.SignRequest) ([]byte, error) {
	f.signCalls++
	if rt.Choose("inner.sign", 2) == 1 {
		f.signErr = true
		return nil, rt.NewEnvError("sign")
	}
	f.raw = rt.Atom("emitted")
	rt.Assume(len(f.raw) > 0)
	return f.raw, nil
}
func (f *innerLoc) Verify() (*signature.EnvelopeContent, error)  { return f.content, nil }
func (f *innerLoc) Content() (*signature.EnvelopeContent, error) { return f.content, nil }

var chainOKLoc bool
var chainTimeNil bool

func sumChainLoc(chain []*x509.Certificate, t *time.Time) error {
	chainTimeNil = t == nil
	if rt.Choose("chain.verdict", 2) == 1 {
		return rt.NewEnvError("chain")
	}
	chainOKLoc = true
	return nil
}

func reported() (*signature.EnvelopeContent, int, int, int) {
	n := rt.Choose("chainlen", 2)
	chain := make([]*x509.Certificate, n)
	kind, bits := 0, 0
	for i := range chain {
		k, kd, b := rt.NondetPublicKey("cert" + string(rune('0'+i)))
		chain[i] = &x509.Certificate{PublicKey: k}
		if i == 0 {
			kind, bits = kd, b
		}
	}
	alg := rt.Int("declared.alg")
	return &signature.EnvelopeContent{
		Payload: signature.Payload{ContentType: rt.AtomString("cty"), Content: rt.Atom("payload")},
		SignerInfo: signature.SignerInfo{
			Signature:          rt.Atom("sig"),
			SignatureAlgorithm: signature.Algorithm(alg),
			CertificateChain:   chain,
			SignedAttributes: signature.SignedAttributes{SigningScheme: signature.SigningScheme(rt.AtomString("scheme")),
				SigningTime: inLoc(rt.Time("st"), "st"), Expiry: inLoc(rt.Time("exp"), "exp")},
		},
	}, alg, rt.AlgRow(kind, bits), n
}

func H_C07_base_times() {
	c, alg, row, n := reported()
	e := &Envelope{Envelope: &innerLoc{content: c}, Raw: rt.Atom("raw")}
	rt.Assume(len(e.Raw) > 0)
	useContent := rt.Choose("op", 2) == 1
	var got *signature.EnvelopeContent
	var err error
	if useContent {
		got, err = e.Content()
	} else {
		got, err = e.Verify()
	}
	st, exp := c.SignerInfo.SignedAttributes.SigningTime, c.SignerInfo.SignedAttributes.Expiry
	rules := rt.And(rt.And(len(c.Payload.Content) > 0, len(c.SignerInfo.Signature) > 0),
		rt.And(rt.And(rt.Not(st.IsZero()), rt.Or(exp.IsZero(), exp.After(st))), len(c.SignerInfo.SignedAttributes.SigningScheme) > 0))
	if err == nil {
		rt.Assert(got == c, "C07.base.same.content")
		rt.Assert(rules, "C07.base.rules.hold.for.the.instants")
		rt.Assert(n > 0 && chainOKLoc && chainTimeNil, "C07.base.chain.validated")
		rt.Assert(rt.And(alg != 0, alg == row), "C07.base.algorithm.of.the.leaf.key")
	} else {
		rt.Assert(got == nil, "C07.base.no.content.on.error")
		// conversely: a report that meets every base-layer rule is accepted
		ok := rt.And(rules, rt.And(alg != 0, alg == row))
		rt.Assert(rt.Not(rt.And(ok, n > 0 && chainOKLoc)), "C07.base.conforming.report.accepted")
	}
}

type signerLoc struct{}

func (signerLoc) Sign(payload []byte) ([]byte, []*x509.Certificate, error) {
	return nil, nil, rt.NewEnvError("unused")
}
func (signerLoc) KeySpec() (signature.KeySpec, error) {
	if rt.Choose("keyspec", 2) == 1 {
		return signature.KeySpec{}, rt.NewEnvError("keyspec")
	}
	return signature.KeySpec{Type: signature.KeyTypeEC, Size: 256}, nil
}

func H_C16_base_sign_times() {
	c, _, _, _ := reported()
	inner := &innerLoc{content: c}
	e := &Envelope{Envelope: inner}
	st, exp := inLoc(rt.Time("req.st"), "req.st"), inLoc(rt.Time("req.exp"), "req.exp")
	req := &signature.SignRequest{
		Payload:       signature.Payload{ContentType: "application/x", Content: rt.Atom("req.payload")},
		Signer:        signerLoc{},
		SigningTime:   st,
		Expiry:        exp,
		SigningScheme: signature.SigningScheme(rt.AtomString("req.scheme")),
	}
	out, err := e.Sign(req)
	stT, expT := st.Truncate(time.Second), exp.Truncate(time.Second)
	bad := rt.Or(stT.IsZero(), rt.And(rt.Not(expT.IsZero()), rt.Not(expT.After(stT))))
	bad = rt.Or(bad, rt.Or(len(req.Payload.Content) == 0, len(req.SigningScheme) == 0))
	rt.Assert(rt.Implies(bad, err != nil), "C16.base.invalid.times.rejected.in.any.location")
	rt.Assert(rt.Implies(bad, inner.signCalls == 0), "C16.base.invalid.request.never.reaches.the.signer")
	rt.Assert((err != nil) == (out == nil), "C16.base.bytes.xor.error")
	if err == nil {
		rt.Assert(inner.signCalls == 1 && rt.BytesEq(out, inner.raw) && rt.BytesEq(e.Raw, inner.raw), "C16.base.emitted.bytes")
		// the request was canonicalised to whole seconds (same instants, whatever the location)
		rt.Assert(rt.And(req.SigningTime.Equal(stT), req.Expiry.Equal(expT)), "C08.base.times.truncated")
	}
}
