//go:build verif

// C01 (JWS) — whenever base.Envelope.Verify succeeds, golang-jwt's REAL parser and signing-method glue ran down to the
// signature primitive, and the primitive answered "valid" for (key = public key of the certificate parsed from chain
// element 0, hash = the table's hash of the declared algorithm, message = protected + "." + payload of exactly this
// envelope, signature = the decoding of this envelope's signature text); the primitive is the one of the family the
// algorithm dictates; the returned content is the decoding of those same fields (checkAcceptedJWS).
//verif:pkg signature/jws
//verif:include jws_env.go
//verif:include jws_content.go
//verif:harness H_C01_jws_verify
//verif:harness H_C01_jws_verify_fold
//verif:harness H_C01_jws_verify_after thorough-only
package jws

import (
	"crypto/x509"

	rt "github.com/notaryproject/notation-core-go/internal/zzverifrt"
	"github.com/notaryproject/notation-core-go/signature/internal/base"
)


// the same with one member of the protected header whose key differs from a specified key only in letter case
func H_C01_jws_verify_fold() {
	foldModel = true
	extrasMax = 1
	H_C01_jws_verify()
}

// the same on an object on which Content() or Verify() has been called before (the object is stateful)
var statefulJ bool

func H_C01_jws_verify_after() {
	statefulJ = true
	extrasMax = 1
	H_C01_jws_verify()
}

func H_C01_jws_verify() {
	env := buildEnvelopeJWS()
	raw := rt.Atom("raw")
	rawLenJ = len(raw)
	e := &base.Envelope{Envelope: &envelope{base: env}, Raw: raw}
	p0, y0, s0 := env.Protected, env.Payload, env.Signature
	// the object is stateful: what was called on it before must not matter (content extraction is allowed on an
	// unverified envelope and is what callers do first to pick a trust policy)
	prior := 0
	if statefulJ {
		prior = 1 + rt.Choose("prior.call", 2)
	}
	if prior != 0 {
		// bound of the stateful variants: the three texts are free of '.', as every base64url text is (with a prior call
		// the splitting forks of golang-jwt multiply with the header shapes instead of preceding them)
		rt.NoSep(env.Protected, ".")
		rt.NoSep(env.Payload, ".")
		rt.NoSep(env.Signature, ".")
	}
	switch prior {
	case 1:
		e.Content()
	case 2:
		e.Verify()
	}
	c, err := e.Verify()
	rt.Assert(rt.Same(p0, env.Protected) && rt.Same(y0, env.Payload) && rt.Same(s0, env.Signature), "C01.jws.envelope.unchanged")
	if err != nil {
		rt.Assert(c == nil, "C01.jws.nil.on.error")
		// conversely (C07): an envelope that meets the specification and carries a valid signature is accepted - if the
		// content is extractable and the primitive answered "valid" for exactly (leaf key, table hash, protected.payload,
		// signature), verification must not have failed
		if len(vrfLogJ) > 0 { // only where the primitive was reached at all
			if c0, cerr := e.Content(); cerr == nil && c0 != nil && len(chainRawJ) > 0 && !chainParseErrJ[0] {
				rt.Assert(rt.Not(validAnswerFor(env)), "C07.jws.valid.signature.is.accepted")
			}
		}
		return
	}
	if len(chainRawJ) == 0 || chainParseErrJ[0] {
		rt.Assert(false, "C01.jws.leaf.parsed")
		return
	}
	leaf := rt.Havoc[*x509.Certificate]("cert0")
	h := theHeader()
	row := jwsAlgRow(h.Algorithm)
	kind, _ := rt.KeyInfo(leaf.PublicKey)
	sg, _ := decodedOf(env.Signature)
	signingString := env.Protected + "." + env.Payload
	held := false
	for _, v := range vrfLogJ {
		if !rt.Same(v.key, leaf.PublicKey) || !rt.Same(v.content, []byte(signingString)) {
			continue
		}
		sigOK := false
		switch v.family {
		case "PS":
			sigOK = rt.Same(v.sig, sg)
		case "ES":
			// r and s are the two halves of the decoded signature
			n := len(sg) / 2
			_ = n
			sigOK = v.r != nil && v.s != nil && ecHalves(sg, v)
		}
		if sigOK {
			held = rt.Or(held, rt.And(v.valid, v.hash == rt.HashRow(row)))
			rt.Assert((v.family == "PS") == (kind == rt.KindRSA) && (v.family == "ES") == (kind == rt.KindEC), "C01.jws.primitive.family")
		}
	}
	// C02: the primitive that accepted the signature ran with the hash the table gives for the REPORTED algorithm, and
	// that algorithm is the row of the leaf key
	rt.Assert(rt.Implies(row == rt.AlgRow(rt.KeyInfo(leaf.PublicKey)), held), "C02.jws.verified.under.the.algorithm.of.the.leaf.key")
	rt.Assert(held, "C01.jws.signed.by.leaf.key")
	checkAcceptedJWS(env, c)
	c2, err2 := e.Content()
	rt.Assert(err2 == nil && c2 != nil, "C07.jws.content.after.verify")
	if c2 != nil {
		same := rt.BytesEq(c2.Payload.Content, c.Payload.Content)
		same = rt.And(same, rt.StrEq(c2.Payload.ContentType, c.Payload.ContentType))
		same = rt.And(same, c2.SignerInfo.SignatureAlgorithm == c.SignerInfo.SignatureAlgorithm)
		same = rt.And(same, c2.SignerInfo.SignedAttributes.SigningTime.Equal(c.SignerInfo.SignedAttributes.SigningTime))
		same = rt.And(same, c2.SignerInfo.SignedAttributes.Expiry.Equal(c.SignerInfo.SignedAttributes.Expiry))
		same = rt.And(same, rt.BytesEq(c2.SignerInfo.Signature, c.SignerInfo.Signature))
		same = rt.And(same, len(c2.SignerInfo.SignedAttributes.ExtendedAttributes) == len(c.SignerInfo.SignedAttributes.ExtendedAttributes))
		rt.Assert(same, "C07.jws.content.equals.verify")
	}
}

// ecHalves: golang-jwt splits the decoded ES signature at the key size of the method: 32, 48 or 66 bytes
func ecHalves(sg []byte, v vrfRecJ) bool {
	for _, k := range []int{32, 48, 66} {
		if len(sg) == 2*k { // symbolic: forks
			return rt.BigEq(v.r, rt.BigOfBytes(sg[:k])) && rt.BigEq(v.s, rt.BigOfBytes(sg[k:]))
		}
	}
	return false
}

// validAnswerFor: did the primitive of the right family answer "valid" for this envelope's leaf key, declared hash,
// signing string and signature?
func validAnswerFor(env *jwsEnvelope) bool {
	leaf := rt.Havoc[*x509.Certificate]("cert0")
	h := theHeader()
	if h == nil {
		return false
	}
	row := jwsAlgRow(h.Algorithm)
	kind, _ := rt.KeyInfo(leaf.PublicKey)
	sg, ok := decodedOf(env.Signature)
	if !ok {
		return false
	}
	signingString := env.Protected + "." + env.Payload
	held := false
	for _, v := range vrfLogJ {
		if !rt.Same(v.key, leaf.PublicKey) || !rt.Same(v.content, []byte(signingString)) {
			continue
		}
		sigOK := false
		switch v.family {
		case "PS":
			sigOK = rt.Same(v.sig, sg) && kind == rt.KindRSA
		case "ES":
			sigOK = v.r != nil && v.s != nil && kind == rt.KindEC && ecHalves(sg, v)
		}
		if sigOK {
			held = rt.Or(held, rt.And(v.valid, v.hash == rt.HashRow(row)))
		}
	}
	return held
}
