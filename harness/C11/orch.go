//go:build verif

// Orchestration harness shared by C11, C12, C17 and C06: the REAL (*revocation).ValidateContext — goroutines, WaitGroup,
// deferred recover, buffered panic channel, non-blocking select — with the per-certificate OCSP and CRL checks replaced
// by summaries (lemmas C04.L2 and C05.L3) and chain validation by an arbitrary verdict (C03/C14). Every order in which
// the per-certificate goroutines run is explored; the executor records read/write footprints per goroutine and reports
// overlapping accesses as races, unjoined goroutines as leaks and blocked sends as deadlocks.
//verif:pkg revocation
//verif:harness H_C11_orch
//verif:harness H_C11_orch_long thorough-only
//verif:summary github.com/notaryproject/notation-core-go/revocation/internal/ocsp.CertCheckStatus -> sumOCSP
//verif:summary github.com/notaryproject/notation-core-go/revocation/internal/crl.CertCheckStatus -> sumCRL
//verif:summary github.com/notaryproject/notation-core-go/revocation/internal/x509util.ValidateChain -> sumChain
package revocation

import (
	"context"
	"crypto/x509"
	"net/http"
	"time"

	rt "github.com/notaryproject/notation-core-go/internal/zzverifrt"
	crlutil "github.com/notaryproject/notation-core-go/revocation/crl"
	"github.com/notaryproject/notation-core-go/revocation/internal/crl"
	"github.com/notaryproject/notation-core-go/revocation/internal/ocsp"
	"github.com/notaryproject/notation-core-go/revocation/purpose"
	"github.com/notaryproject/notation-core-go/revocation/result"
)

const maxChain = 6

// ghost state: fixed-size package-level arrays (package-level harness state is excluded from footprints)
var (
	idxOf       = map[*x509.Certificate]int{}
	theChain    []*x509.Certificate
	withPanics  bool
	ocspCalled  [maxChain]int
	crlCalled   [maxChain]int
	ocspSeq     [maxChain]int
	crlSeq      [maxChain]int
	ocspIssuer  [maxChain]int
	crlIssuer   [maxChain]int
	ocspVerdict [maxChain]int // symbolic result code returned by the OCSP summary
	crlVerdict  [maxChain]int
	ocspRes     [maxChain]*result.CertRevocationResult
	crlRes      [maxChain]*result.CertRevocationResult
	ocspPanic   [maxChain]bool
	crlPanic    [maxChain]bool
	optsOK      [maxChain]bool
	seqCounter  int
	chainCalls  int
	chainErr    error
	chainArgOK  bool
	thePurpose  purpose.Purpose
	theClient   *http.Client
	theFetcher  crlutil.Fetcher
	theST       time.Time
	crlEntered  bool
	// an exchange was started with a context that the validator itself had already cancelled (the caller's is live)
	exchangeAborted [maxChain]bool
	crlEntries  [maxChain]int
)

type nopFetcher struct{}

func (nopFetcher) Fetch(ctx context.Context, url string) (*crlutil.Bundle, error) {
	rt.Fail("fetcher reached below the summary")
	return nil, nil
}

func sumChain(chain []*x509.Certificate, p purpose.Purpose) error {
	chainCalls++
	chainArgOK = len(chain) == len(theChain) && (len(chain) == 0 || chain[0] == theChain[0]) && p == thePurpose
	if rt.Choose("chain.verdict", 2) == 1 {
		chainErr = result.InvalidChainError{Err: rt.NewEnvError("chain")}
	}
	return chainErr
}

func digit(i int) string { return string(rune('0' + i)) }

func sumOCSP(ctx context.Context, cert, issuer *x509.Certificate, opts ocsp.CertCheckStatusOptions) *result.CertRevocationResult {
	i := idxOf[cert]
	ocspCalled[i]++
	seqCounter++
	ocspSeq[i] = seqCounter
	ocspIssuer[i] = idxOf[issuer]
	optsOK[i] = opts.HTTPClient == theClient && opts.SigningTime.Equal(theST)
	exchangeAborted[i] = exchangeAborted[i] || rt.CancelledByCancelFunc(ctx)
	if withPanics && rt.Choose("ocsp.panic."+digit(i), 2) == 1 {
		ocspPanic[i] = true
		panic("boom-ocsp-" + digit(i))
	}
	n := len(cert.OCSPServer)
	var r *result.CertRevocationResult
	if n == 0 {
		ocspVerdict[i] = int(result.ResultNonRevokable)
		r = &result.CertRevocationResult{Result: result.ResultNonRevokable, RevocationMethod: result.RevocationMethodOCSP,
			ServerResults: []*result.ServerResult{{Result: result.ResultNonRevokable, RevocationMethod: result.RevocationMethodOCSP}}}
	} else {
		// lemma C04.L2: the verdict is OK, Revoked or Unknown (never NonRevokable when a responder is named); there is one
		// decisive entry, or one Unknown entry per responder
		v := rt.Int("ocsp.verdict." + digit(i))
		rt.Assume(rt.Or(v == int(result.ResultUnknown), rt.Or(v == int(result.ResultOK), v == int(result.ResultRevoked))))
		ocspVerdict[i] = v
		r = &result.CertRevocationResult{Result: result.Result(v), RevocationMethod: result.RevocationMethodOCSP}
		entries := 1
		if n > 1 && rt.Choose("ocsp.entries."+digit(i), 2) == 1 {
			rt.Assume(v == int(result.ResultUnknown))
			entries = n
		}
		for j := 0; j < entries; j++ {
			e := rt.Int("ocsp.entry." + digit(i) + "." + digit(j))
			if j == entries-1 {
				e = v
			} else {
				rt.Assume(e == int(result.ResultUnknown))
			}
			// lemma C04.L1b: an entry carries no error exactly when it is OK (a Revoked entry carries RevokedError)
			var er error
			if e == int(result.ResultRevoked) {
				er = ocsp.RevokedError{}
			} else if e != int(result.ResultOK) {
				er = rt.NewEnvError("ocsp")
			}
			r.ServerResults = append(r.ServerResults, &result.ServerResult{Result: result.Result(e), Server: cert.OCSPServer[n-entries+j], Error: er, RevocationMethod: result.RevocationMethodOCSP})
		}
	}
	ocspRes[i] = r
	return r
}

func sumCRL(ctx context.Context, cert, issuer *x509.Certificate, opts crl.CertCheckStatusOptions) *result.CertRevocationResult {
	crlEntered = true
	i := idxOf[cert]
	crlCalled[i]++
	seqCounter++
	crlSeq[i] = seqCounter
	crlIssuer[i] = idxOf[issuer]
	optsOK[i] = optsOK[i] || (opts.Fetcher == theFetcher && opts.SigningTime.Equal(theST))
	exchangeAborted[i] = exchangeAborted[i] || rt.CancelledByCancelFunc(ctx)
	if withPanics && rt.Choose("crl.panic."+digit(i), 2) == 1 {
		crlPanic[i] = true
		panic("boom-crl-" + digit(i))
	}
	n := len(cert.CRLDistributionPoints)
	var r *result.CertRevocationResult
	if n == 0 {
		crlVerdict[i] = int(result.ResultNonRevokable)
		r = &result.CertRevocationResult{Result: result.ResultNonRevokable,
			ServerResults: []*result.ServerResult{{Result: result.ResultNonRevokable, RevocationMethod: result.RevocationMethodCRL, Error: rt.NewEnvError("nocrl")}}}
	} else {
		// lemma C05.L3: OK with one OK entry per distribution point, or a single Revoked / Unknown entry
		v := rt.Int("crl.verdict." + digit(i))
		rt.Assume(rt.Or(v == int(result.ResultUnknown), rt.Or(v == int(result.ResultOK), v == int(result.ResultRevoked))))
		crlVerdict[i] = v
		r = &result.CertRevocationResult{Result: result.Result(v)}
		entries := 1
		if n > 1 && rt.Choose("crl.entries."+digit(i), 2) == 1 {
			rt.Assume(v == int(result.ResultOK))
			entries = n
		} else if n > 1 {
			rt.Assume(v != int(result.ResultOK))
		}
		for j := 0; j < entries; j++ {
			r.ServerResults = append(r.ServerResults, &result.ServerResult{Result: result.Result(v), Server: cert.CRLDistributionPoints[j], RevocationMethod: result.RevocationMethodCRL})
		}
	}
	r.RevocationMethod = result.RevocationMethodCRL
	crlEntries[i] = len(r.ServerResults)
	crlRes[i] = r
	return r
}

// buildChain: n certificates, each non-root with 0..maxURL OCSP responders and 0..maxURL distribution points (atoms).
func buildChain(n, maxURL int) []*x509.Certificate {
	chain := make([]*x509.Certificate, n)
	for i := range chain {
		c := &x509.Certificate{}
		no := rt.Choose("nOCSP."+digit(i), maxURL+1)
		for j := 0; j < no; j++ {
			c.OCSPServer = append(c.OCSPServer, rt.AtomString("ocsp."+digit(i)+"."+digit(j)))
		}
		nd := rt.Choose("nDP."+digit(i), maxURL+1)
		for j := 0; j < nd; j++ {
			c.CRLDistributionPoints = append(c.CRLDistributionPoints, rt.AtomString("dp."+digit(i)+"."+digit(j)))
		}
		chain[i] = c
		idxOf[c] = i
	}
	return chain
}

func isNonRevokableRecord(r *result.CertRevocationResult) bool {
	return r != nil && r.Result == result.ResultNonRevokable && r.RevocationMethod == result.RevocationMethodUnknown && len(r.ServerResults) == 1 &&
		r.ServerResults[0].Result == result.ResultNonRevokable && r.ServerResults[0].Server == "" && r.ServerResults[0].Error == nil &&
		r.ServerResults[0].RevocationMethod == result.RevocationMethodUnknown
}

// serverOwned: every server result names one of this certificate's URLs (or none)
func serverOwned(c *x509.Certificate, srs []*result.ServerResult) bool {
	ok := true
	for _, s := range srs {
		if s == nil {
			return false
		}
		own := s.Server == ""
		for _, u := range c.OCSPServer {
			own = rt.Or(own, rt.StrEq(s.Server, u))
		}
		for _, u := range c.CRLDistributionPoints {
			own = rt.Or(own, rt.StrEq(s.Server, u))
		}
		ok = rt.And(ok, own)
	}
	return ok
}

func runValidate(v *revocation, chain []*x509.Certificate) (res []*result.CertRevocationResult, err error, pval any, panicked bool) {
	pval, panicked = rt.Panics(func() {
		res, err = v.ValidateContext(context.Background(), ValidateContextOptions{CertChain: chain, AuthenticSigningTime: theST})
	})
	return
}

// longChains: the thorough-only variants trade URLs per kind for chain length (chains 0..3 with 0..2 URLs per kind are
// ~3*10^4 paths; 0..4 with 0..2 did not finish within the 90 min budget - 1.3*10^6 paths - and is not registered;
// 0..5 with 0..1 is)
var longChains bool
var longChainMax = 5

func setup(nMaxQuick, nMaxThorough int) (*revocation, []*x509.Certificate, int) {
	nMax, uMax := rt.Bound("chain_len_max", nMaxQuick, nMaxQuick), rt.Bound("urls_per_kind_max", 2, 2)
	if longChains {
		nMax, uMax = rt.Bound("long_chain_len_max", longChainMax, longChainMax), rt.Bound("long_urls_per_kind_max", 1, 1)
	}
	n := rt.Choose("n", 1+nMax)
	chain := buildChain(n, uMax)
	theChain = chain
	thePurpose = purpose.Purpose(rt.Choose("purpose", 2))
	theClient, theFetcher, theST = &http.Client{}, nopFetcher{}, rt.Time("signingTime")
	return &revocation{ocspHTTPClient: theClient, crlFetcher: theFetcher, certChainPurpose: thePurpose}, chain, n
}

// checkTable: decision table of DESIGN.md appendix A.3 for certificate i (C11), positional/shape rules (C12)
func checkTable(chain []*x509.Certificate, res []*result.CertRevocationResult, i, n int) {
	c := chain[i]
	r := res[i]
	O, D := len(c.OCSPServer), len(c.CRLDistributionPoints)
	rt.Assert(r != nil, "C12.nonnil")
	if r == nil {
		return
	}
	rt.Assert(serverOwned(c, r.ServerResults), "C12.positional")
	if i == n-1 {
		rt.Assert(isNonRevokableRecord(r) && ocspCalled[i] == 0 && crlCalled[i] == 0, "C12.root")
		return
	}
	switch {
	case O > 0:
		rt.Assert(ocspCalled[i] == 1 && ocspIssuer[i] == i+1, "C11.ocsp.called.with.issuer")
		unknown := ocspVerdict[i] == int(result.ResultUnknown) // symbolic
		if D == 0 {
			rt.Assert(crlCalled[i] == 0, "C11.no.crl.without.points")
			rt.Assert(r == ocspRes[i] && r.RevocationMethod == result.RevocationMethodOCSP, "C11.ocsp.result")
			break
		}
		// the CRL check ran exactly when the OCSP verdict was Unknown
		rt.Assert(rt.Iff(crlCalled[i] == 1, unknown), "C11.crl.iff.ocsp.unknown")
		rt.Assert(crlCalled[i] <= 1, "C11.crl.once")
		if crlCalled[i] == 1 {
			rt.Assert(crlIssuer[i] == i+1 && crlSeq[i] > ocspSeq[i], "C11.fallback.called.after.ocsp")
			rt.Assert(r.RevocationMethod == result.RevocationMethodOCSPFallbackCRL, "C11.fallback.method")
			cr, or := crlRes[i], ocspRes[i]
			if cr != nil && or != nil {
				rt.Assert(r.Result == result.Result(crlVerdict[i]), "C11.fallback.verdict")
				rt.Assert(len(r.ServerResults) == len(or.ServerResults)+crlEntries[i], "C11.fallback.entries")
				if len(r.ServerResults) == len(or.ServerResults)+crlEntries[i] {
					for j, s := range or.ServerResults {
						rt.Assert(r.ServerResults[j] == s, "C11.fallback.ocsp.first")
					}
					for j := 0; j < crlEntries[i]; j++ {
						s := r.ServerResults[len(or.ServerResults)+j]
						rt.Assert(s.RevocationMethod == result.RevocationMethodCRL && rt.StrEq(s.Server, c.CRLDistributionPoints[j]), "C11.fallback.crl.after")
					}
				}
			}
		} else {
			rt.Assert(r == ocspRes[i] && r.RevocationMethod == result.RevocationMethodOCSP, "C11.final.ocsp.result")
			rt.Assert(r.Result == result.Result(ocspVerdict[i]), "C11.final.ocsp.verdict")
		}
	case D > 0:
		rt.Assert(ocspCalled[i] == 0 && crlCalled[i] == 1 && crlIssuer[i] == i+1, "C11.crl.only")
		rt.Assert(r == crlRes[i] && r.RevocationMethod == result.RevocationMethodCRL, "C11.crl.result")
	default:
		rt.Assert(ocspCalled[i] == 0 && crlCalled[i] == 0 && isNonRevokableRecord(r), "C11.neither.nonrevokable")
	}
	if ocspCalled[i]+crlCalled[i] > 0 {
		rt.Assert(optsOK[i], "C11.options.passed")
	}
	// OK never next to a Revoked entry
	for _, s := range r.ServerResults {
		rt.Assert(rt.Implies(r.Result == result.ResultOK, s.Result != result.ResultRevoked), "C12.ok.without.revoked.entry")
	}
}


func H_C11_orch() {
	v, chain, n := setup(3, 4)
	res, err, _, panicked := runValidate(v, chain)
	rt.Assert(!panicked, "C11.nopanic")
	if panicked {
		return
	}
	if n == 0 {
		_, isChainErr := err.(result.InvalidChainError)
		rt.Assert(isChainErr && res == nil && chainCalls == 0, "C12.empty.chain")
		return
	}
	rt.Assert(chainCalls == 1 && chainArgOK, "C12.chain.validated.for.purpose")
	if chainErr != nil {
		_, isChainErr := err.(result.InvalidChainError)
		rt.Assert(isChainErr && res == nil, "C12.invalid.chain")
		rt.Assert(seqCounter == 0, "C12.invalid.chain.no.checks")
		return
	}
	rt.Assert(err == nil && len(res) == n, "C12.one.result.per.certificate")
	if len(res) != n {
		return
	}
	for i := 0; i < n; i++ {
		checkTable(chain, res, i, n)
	}
}

// C12 entry: same exploration; the C12.* assertions are the subject.
func H_C12_orch() { H_C11_orch() }

// thorough tier: chains up to 5 with at most one URL per kind
func H_C11_orch_long() { longChains = true; H_C11_orch() }
func H_C12_orch_long() { longChains = true; H_C11_orch() }
// (with panics as a further outcome of every check, chains up to 5 exceed the path budget of 3*10^6: up to 4)
func H_C17_orch_long() { longChains = true; longChainMax = 4; H_C17_orch() }
func H_C06_orch_long() { longChains = true; H_C06_orch() }

// C17 entry: the summaries may also PANIC (a caller-supplied fetcher or transport may). Asserted: a panic inside a
// per-certificate check resurfaces on the caller's goroutine with one of the panic values raised, nothing is returned,
// every goroutine has finished (no leak, no deadlock on the panic channel), no data race (executor footprints), the
// validator object and the caller's inputs are not written, and without a panic the results are the same for every
// order of the goroutines (the decision table is a function of the per-certificate outcomes only).
func H_C17_orch() {
	withPanics = true
	v, chain, n := setup(3, 4)
	before := *v
	res, err, pval, panicked := runValidate(v, chain)
	anyPanic := false
	for i := 0; i < maxChain; i++ {
		anyPanic = anyPanic || ocspPanic[i] || crlPanic[i]
	}
	rt.Assert(panicked == anyPanic, "C17.panic.resurfaces.iff.raised")
	rt.Assert(rt.Goroutines() == 0, "C17.all.goroutines.finished")
	rt.Assert(v.ocspHTTPClient == before.ocspHTTPClient && v.crlFetcher == before.crlFetcher && v.certChainPurpose == before.certChainPurpose, "C17.validator.unchanged")
	for i, c := range chain {
		rt.Assert(c == theChain[i] && idxOf[c] == i, "C17.inputs.unchanged")
	}
	if panicked {
		rt.Assert(res == nil && err == nil, "C17.nothing.returned.on.panic")
		s, isStr := pval.(string)
		one := false
		for i := 0; i < maxChain; i++ {
			if isStr && ((ocspPanic[i] && s == "boom-ocsp-"+digit(i)) || (crlPanic[i] && s == "boom-crl-"+digit(i))) {
				one = true
			}
		}
		rt.Assert(one, "C17.panic.value.is.one.of.the.raised")
		return
	}
	if n == 0 || chainErr != nil {
		return
	}
	rt.Assert(err == nil && len(res) == n, "C17.results.complete")
	// the caller's context is live throughout: an exchange that is handed an already cancelled context was cancelled by
	// the validator itself, which makes its outcome depend on the order in which the exchanges ran
	for i := 0; i < n; i++ {
		rt.Assert(!exchangeAborted[i], "C17.no.exchange.cancelled.by.the.validator")
	}
	if len(res) == n {
		for i := 0; i < n; i++ {
			checkTable(chain, res, i, n)
		}
	}
}

// C06 entry: fail closed. A certificate that names a revocation source the entry point uses never comes out OK unless
// the source's check reported OK (authentic evidence of good standing, lemmas C04/C05), and never NonRevokable; what
// happens to one certificate never changes another certificate's result (each result is the table applied to that
// certificate's own outcomes).
func H_C06_orch() {
	v, chain, n := setup(3, 4)
	res, err, _, panicked := runValidate(v, chain)
	if panicked || n == 0 || chainErr != nil || err != nil || len(res) != n {
		rt.Assert(!panicked, "C06.nopanic")
		return
	}
	for i := 0; i < n-1; i++ {
		c, r := chain[i], res[i]
		O, D := len(c.OCSPServer), len(c.CRLDistributionPoints)
		if O+D == 0 || r == nil {
			continue
		}
		rt.Assert(r.Result != result.ResultNonRevokable, "C06.never.nonrevokable.with.a.source")
		evidence := false
		if ocspCalled[i] == 1 {
			evidence = rt.Or(evidence, ocspVerdict[i] == int(result.ResultOK))
		}
		if crlCalled[i] == 1 {
			evidence = rt.Or(evidence, crlVerdict[i] == int(result.ResultOK))
		}
		rt.Assert(rt.Implies(r.Result == result.ResultOK, evidence), "C06.ok.needs.evidence")
		// authentic evidence of revocation is never softened
		if ocspCalled[i] == 1 {
			rt.Assert(rt.Implies(ocspVerdict[i] == int(result.ResultRevoked), r.Result == result.ResultRevoked), "C06.ocsp.revoked.is.final")
		}
		if crlCalled[i] == 1 {
			rt.Assert(rt.Implies(crlVerdict[i] == int(result.ResultRevoked), r.Result == result.ResultRevoked), "C06.crl.revoked.is.final")
		}
	}
	// non-interference: every result is the decision table applied to that certificate's own outcomes only
	for i := 0; i < n; i++ {
		checkTable(chain, res, i, n)
	}
}
