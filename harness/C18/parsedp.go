//go:build verif

// C18.P / C09.P — byte-level lemma for the one place where the repo itself parses untrusted bytes: the freshest-CRL
// extension value. The DER buffer is FULLY SYMBOLIC (every byte a bit-vector) for every length 0..N; the real
// golang.org/x/crypto/cryptobyte readers run. Asserted: no panic, termination within the loop bound, at most n/2 URLs.
//verif:pkg revocation/crl
//verif:harness H_C18_parsedp
// every loop of the value parser consumes at least one byte of the (at most der_len_max = 16 byte) buffer per iteration:
//verif:terminates crl.parseCRLDistributionPoint 64
//verif:harness H_C18_parsedp_roundtrip
package crl

import (
	rt "github.com/notaryproject/notation-core-go/internal/zzverifrt"
)

func H_C18_parsedp() {
	n := rt.Choose("len", 1+rt.Bound("der_len_max", 12, 16))
	buf := rt.Bytes("der", n)
	var urls []string
	var err error
	_, panicked := rt.Panics(func() { urls, err = parseCRLDistributionPoint(buf) })
	rt.Assert(!panicked, "C18.P.nopanic")
	if panicked {
		return
	}
	if err == nil {
		rt.Assert(2*len(urls) <= n, "C18.P.size")
		rt.Cover("C18.P.accepting")
	} else {
		rt.Assert(urls == nil, "C18.P.nil.on.error")
	}
}

// reference encoder: CRLDistributionPoints ::= SEQUENCE OF DistributionPoint{ [0] { [0] { [6] uri … } } }, short-form lengths
func encodeDP(points [][]string) []byte {
	var out []byte
	for _, uris := range points {
		var names []byte
		for _, u := range uris {
			names = append(names, 0x86, byte(len(u)))
			names = append(names, u...)
		}
		full := append([]byte{0xA0, byte(len(names))}, names...)
		dpn := append([]byte{0xA0, byte(len(full))}, full...)
		dp := append([]byte{0x30, byte(len(dpn))}, dpn...)
		out = append(out, dp...)
	}
	return append([]byte{0x30, byte(len(out))}, out...)
}

// parse(encode(urls)) == urls for every content of the URLs (0..2 points, 1..2 URIs each, 0..2 symbolic bytes per URI)
func H_C18_parsedp_roundtrip() {
	np := rt.Choose("points", 3)
	var points [][]string
	var flat []string
	for i := 0; i < np; i++ {
		nu := 1 + rt.Choose("uris"+string(rune('0'+i)), 2)
		var uris []string
		for j := 0; j < nu; j++ {
			nm := "uri" + string(rune('0'+i)) + string(rune('0'+j))
			u := rt.String(nm, rt.Choose(nm+".len", 3))
			uris = append(uris, u)
			flat = append(flat, u)
		}
		points = append(points, uris)
	}
	urls, err := parseCRLDistributionPoint(encodeDP(points))
	rt.Assert(err == nil, "C18.P.rt.accepts")
	rt.Assert(len(urls) == len(flat), "C18.P.rt.count")
	if len(urls) == len(flat) {
		for i := range flat {
			rt.Assert(rt.StrEq(urls[i], flat[i]), "C18.P.rt.same")
		}
	}
}
