//go:build verif

// C18 — one Fetch from an ARBITRARY cache state (the cache answers anything): an inductive step, hence histories of any
// length. fetchCRL and parseCRLDistributionPoint are summarised here; their own lemmas are in download.go / parsedp.go.
//verif:pkg revocation/crl
//verif:harness H_C18_fetch
//verif:summary github.com/notaryproject/notation-core-go/revocation/crl.fetchCRL -> sumFetchCRL
//verif:summary github.com/notaryproject/notation-core-go/revocation/crl.parseCRLDistributionPoint -> sumParseDP
//verif:stub time.Now -> stubNow18
package crl

import (
	"context"
	"crypto/x509"
	"fmt"
	"net/http"
	"time"

	rt "github.com/notaryproject/notation-core-go/internal/zzverifrt"
)

var now18 []time.Time

func stubNow18() time.Time {
	t := rt.Time(rt.Name("now"))
	now18 = append(now18, t)
	return t
}

type dlRec struct {
	url string
	ok  bool
	crl *x509.RevocationList
}

var dls []dlRec
var theClient *http.Client

func sumFetchCRL(ctx context.Context, url string, client *http.Client) (*x509.RevocationList, error) {
	rt.Assert(client == theClient, "C18.client")
	if rt.Choose(rt.Name("download"), 2) == 1 {
		dls = append(dls, dlRec{url, false, nil})
		return nil, rt.NewEnvError("download")
	}
	c := rt.Havoc[*x509.RevocationList](rt.Name("downloaded"))
	dls = append(dls, dlRec{url, true, c})
	return c, nil
}

var dpCalls int
var dpErr bool
var dpURLs []string

func sumParseDP(value []byte) ([]string, error) {
	dpCalls++
	switch k := rt.Choose("freshest.parse", 2+rt.Bound("delta_locations_max", 2, 3)); k {
	case 0:
		dpErr = true
		return nil, rt.NewEnvError("parsedp")
	default:
		for i := 0; i < k-1; i++ {
			dpURLs = append(dpURLs, rt.AtomString("delta.url"+string(rune('0'+i))))
		}
	}
	return dpURLs, nil
}

type envCache struct{}

var getCalls, setCalls int
var getKind int // 0 bundle, 1 miss, 2 wrapped miss, 3 other error
var cached *Bundle
var getURL, setURL string
var setBundle *Bundle
var setErr bool

func (envCache) Get(ctx context.Context, url string) (*Bundle, error) {
	getCalls++
	getURL = url
	getKind = rt.Choose("cache.get", 4)
	switch getKind {
	case 1:
		return nil, ErrCacheMiss
	case 2:
		return nil, fmt.Errorf("lookup of %s: %w", "key", ErrCacheMiss)
	case 3:
		return nil, rt.NewEnvError("cache.get")
	}
	cached = &Bundle{BaseCRL: rt.Havoc[*x509.RevocationList]("cached.base")}
	if rt.Choose("cache.delta", 2) == 1 {
		cached.DeltaCRL = rt.Havoc[*x509.RevocationList]("cached.delta")
	}
	return cached, nil
}
func (envCache) Set(ctx context.Context, url string, b *Bundle) error {
	setCalls++
	setURL, setBundle = url, b
	if rt.Choose("cache.set", 2) == 1 {
		setErr = true
		return rt.NewEnvError("cache.set")
	}
	return nil
}

func effectiveAt(c *x509.RevocationList, now time.Time) bool {
	return rt.And(rt.Not(c.NextUpdate.IsZero()), rt.Not(now.After(c.NextUpdate)))
}

func H_C18_fetch() {
	rt.ExtMax = 2
	theClient = &http.Client{}
	discard := rt.Choose("discard", 2) == 1
	f := &HTTPFetcher{httpClient: theClient, DiscardCacheError: discard}
	hasCache := rt.Choose("cache", 2) == 1
	if hasCache {
		f.Cache = envCache{}
	}
	url := rt.AtomString("url")
	b, err := f.Fetch(rt.EnvContext{Tag: "caller"}, url)

	rt.Assert((b == nil) != (err == nil), "C18.result.xor.error")
	rt.Assert(getCalls <= 1 && setCalls <= 1 && (hasCache || getCalls+setCalls == 0), "C18.cache.calls")
	if len(url) == 0 { // symbolic: forks
		rt.Assert(err != nil && len(dls) == 0 && getCalls == 0, "C18.empty.url")
		return
	}
	if hasCache {
		rt.Assert(getCalls == 1 && rt.StrEq(getURL, url), "C18.cache.consulted")
	}
	if err == nil && hasCache && b == cached && cached != nil {
		// served from the cache: must be effective at the instants observed, nothing downloaded, nothing written
		rt.Assert(getKind == 0 && len(dls) == 0 && setCalls == 0, "C18.hit.pure")
		rt.Assert(len(now18) >= 1 && effectiveAt(cached.BaseCRL, now18[0]), "C18.hit.base.effective")
		if cached.DeltaCRL != nil {
			rt.Assert(len(now18) == 2 && effectiveAt(cached.DeltaCRL, now18[1]), "C18.hit.delta.effective")
		}
		return
	}
	// cache read failure other than a miss is an error unless discarded; a miss (also wrapped) never is
	if hasCache && getKind == 3 && !discard {
		rt.Assert(err != nil && len(dls) == 0, "C18.cache.get.error")
		return
	}
	// everything else must have gone to the network: base first, from exactly this URL
	if len(dls) == 0 {
		rt.Assert(false, "C18.download.attempted")
		return
	}
	rt.Assert(rt.StrEq(dls[0].url, url), "C18.base.url")
	if !dls[0].ok {
		rt.Assert(err != nil && len(dls) == 1 && setCalls == 0, "C18.base.failed")
		return
	}
	base := dls[0].crl
	hasFreshest, _ := rt.ExtFlags(base.Extensions, 46)
	var wantDelta *x509.RevocationList
	deltaFailed := false
	if hasFreshest { // symbolic: forks after the code ran
		rt.Assert(dpCalls == 1, "C18.freshest.parsed")
		if dpErr {
			deltaFailed = true
		} else if len(dpURLs) > 0 {
			// first location that answers, all earlier ones having failed, in order
			deltaFailed = true
			for i, u := range dpURLs {
				if 1+i >= len(dls) {
					rt.Assert(false, "C18.delta.location.tried")
					return
				}
				rt.Assert(rt.StrEq(dls[1+i].url, u), "C18.delta.order")
				if dls[1+i].ok {
					wantDelta, deltaFailed = dls[1+i].crl, false
					rt.Assert(len(dls) == 2+i, "C18.delta.first.success.stops")
					break
				}
			}
		}
	} else {
		rt.Assert(dpCalls == 0 && len(dls) == 1, "C18.no.freshest.no.delta.download")
	}
	if deltaFailed {
		rt.Assert(err != nil && setCalls == 0, "C18.delta.failed.is.error")
		return
	}
	// downloaded bundle complete: written to the cache, write failure is an error unless discarded
	if hasCache {
		rt.Assert(setCalls == 1 && rt.StrEq(setURL, url) && setBundle != nil && setBundle.BaseCRL == base && setBundle.DeltaCRL == wantDelta, "C18.cache.written")
		if setErr && !discard {
			rt.Assert(err != nil, "C18.cache.set.error")
			return
		}
	}
	rt.Assert(err == nil && b != nil, "C18.success")
	if b != nil {
		rt.Assert(b.BaseCRL == base && b.DeltaCRL == wantDelta, "C18.bundle")
	}
}
