//go:build verif

// C18 lemma — fetchCRL: a CRL is returned only if the URL parses with scheme exactly "http", the GET for exactly this
// URL was answered with 200, the body was read through the 32 MiB limiter and is shorter than the limit, and
// x509.ParseRevocationList accepted exactly those bytes; every other outcome is an error.
//verif:pkg revocation/crl
//verif:harness H_C18_download
//verif:stub net/url.Parse -> stubURLParse18
//verif:stub net/http.NewRequestWithContext -> stubNewRequest18
//verif:stub (*net/http.Client).Do -> stubDo18
//verif:stub io.ReadAll -> stubReadAll18
//verif:stub crypto/x509.ParseRevocationList -> stubParseCRL18
package crl

import (
	"context"
	"crypto/x509"
	"io"
	"net/http"
	"net/url"

	rt "github.com/notaryproject/notation-core-go/internal/zzverifrt"
)

var (
	urlParsed    bool
	urlScheme    string
	reqMethod    string
	reqURL       string
	reqHasBody   bool
	theReq       *http.Request
	doCalls18    int
	doReqOK      bool
	status18     int
	gotResp18    bool
	closed18     bool
	readLimit18  int64 = -1
	unbounded18  bool
	body18       []byte
	parsedFrom   []byte
	parsedCRL    *x509.RevocationList
	parseCalls18 int
)

func stubURLParse18(s string) (*url.URL, error) {
	if rt.Choose("url.parse.err", 2) == 1 {
		return nil, rt.NewEnvError("url")
	}
	urlParsed = true
	urlScheme = rt.AtomString("url.scheme")
	return &url.URL{Scheme: urlScheme}, nil
}
func stubNewRequest18(ctx context.Context, method, u string, body io.Reader) (*http.Request, error) {
	if rt.Choose("newreq.err", 2) == 1 {
		return nil, rt.NewEnvError("newreq")
	}
	reqMethod, reqURL, reqHasBody = method, u, body != nil
	theReq = &http.Request{Method: method}
	return theReq, nil
}

type envBody18 struct{}

func (*envBody18) Read(p []byte) (int, error) { rt.Fail("body read directly"); return 0, io.EOF }
func (*envBody18) Close() error               { closed18 = true; return nil }

func stubDo18(c *http.Client, req *http.Request) (*http.Response, error) {
	doCalls18++
	doReqOK = req == theReq
	if rt.Choose("do", 2) == 1 {
		return nil, rt.NewEnvError("transport")
	}
	status18 = rt.Int("http.status")
	gotResp18 = true
	return &http.Response{StatusCode: status18, Body: &envBody18{}}, nil
}
func stubReadAll18(r io.Reader) ([]byte, error) {
	lr, ok := r.(*io.LimitedReader)
	if !ok {
		unbounded18 = true
	} else {
		readLimit18 = lr.N
	}
	if rt.Choose("readall.err", 2) == 1 {
		return nil, rt.NewEnvError("read")
	}
	body18 = rt.Atom("body")
	if ok {
		rt.Assume(int64(len(body18)) <= lr.N)
	}
	return body18, nil
}
func stubParseCRL18(der []byte) (*x509.RevocationList, error) {
	parseCalls18++
	parsedFrom = der
	if rt.Choose("parsecrl.err", 2) == 1 {
		return nil, rt.NewEnvError("parsecrl")
	}
	parsedCRL = rt.Havoc[*x509.RevocationList]("crl")
	return parsedCRL, nil
}

func H_C18_download() {
	client := &http.Client{}
	u := rt.AtomString("url")
	c, err := fetchCRL(rt.EnvContext{Tag: "caller"}, u, client)
	rt.Assert((c == nil) != (err == nil), "C18.dl.result.xor.error")
	if gotResp18 {
		rt.Assert(closed18, "C18.dl.body.closed")
	}
	if err != nil {
		return
	}
	rt.Assert(urlParsed && rt.StrEq(urlScheme, "http"), "C18.dl.plain.http")
	rt.Assert(doCalls18 == 1 && doReqOK && reqMethod == "GET" && !reqHasBody && rt.StrEq(reqURL, u), "C18.dl.get.this.url")
	rt.Assert(gotResp18 && status18 == 200, "C18.dl.status200")
	rt.Assert(!unbounded18 && readLimit18 == 32*1024*1024, "C18.dl.limited.read")
	rt.Assert(len(body18) < 32*1024*1024, "C18.dl.below.limit")
	rt.Assert(parseCalls18 == 1 && rt.BytesEq(parsedFrom, body18) && c == parsedCRL, "C18.dl.parsed.these.bytes")
}
