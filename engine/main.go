// gosymex — bounded symbolic execution of notation-core-go's real code from go/ssa, decided by an SMT solver.
package main

import (
	"encoding/json"
	"fmt"
	"os"
	"path/filepath"
	"runtime"
	"runtime/debug"
	"runtime/pprof"
	"sort"
	"strconv"
	"strings"
	"time"

	"golang.org/x/tools/go/ssa"
)

func usage() {
	fmt.Fprintln(os.Stderr, `usage:
  gosymex check <property> [--tier quick|thorough] [--workers N] [--harness NAME] [--overlay /repo/path=file] [--bound name=n] [--no-evidence]
  gosymex replay <replay.json>`)
	os.Exit(2)
}

func main() {
	if pf := os.Getenv("GOSYMEX_CPUPROF"); pf != "" {
		f, _ := os.Create(pf)
		pprof.StartCPUProfile(f)
		go func() {
			time.Sleep(40 * time.Second)
			pprof.StopCPUProfile()
			f.Close()
		}()
	}
	if len(os.Args) < 3 {
		usage()
	}
	debug.SetGCPercent(400)
	switch os.Args[1] {
	case "check":
		os.Exit(cmdCheck(os.Args[2], os.Args[3:]))
	case "replay":
		os.Exit(cmdReplay(os.Args[2]))
	}
	usage()
}

type harnessReport struct {
	Name        string           `json:"name"`
	Paths       int64            `json:"paths"`
	Decisions   int64            `json:"decisions"`
	Steps       int64            `json:"ssa_steps"`
	Queries     int64            `json:"solver_queries"`
	Sat         int64            `json:"sat"`
	Unsat       int64            `json:"unsat"`
	Unknown     int64            `json:"unknown"`
	SolverS     float64          `json:"solver_s"`
	WallS       float64          `json:"wall_s"`
	Verdicts    int64            `json:"verdict_queries"`
	VerdictsOK  int64            `json:"verdict_unsat"`
	Asserts     map[string]int64 `json:"assertions_reached"`
	Covers      map[string]int64 `json:"covers_reached"`
	PathEnds    map[string]int64 `json:"path_ends"`
	Bounds      map[string]int   `json:"bounds"`
	MaxDepth    int              `json:"max_decision_depth"`
	Merged      int64            `json:"merged_pure_calls"`
	CrossCheck  int64            `json:"verdicts_cross_checked_on_second_solver"`
	Disagree    int64            `json:"solver_disagreements"`
	Abort       string           `json:"abort,omitempty"`
	Violations  int              `json:"violations"`
	KnownHits   []string         `json:"known_findings_hit,omitempty"`
	Inconclusiv []string         `json:"inconclusive,omitempty"`
}

func cmdCheck(property string, args []string) int {
	tier := os.Getenv("VERIF_TIER")
	if tier == "" {
		tier = "quick"
	}
	workers := runtime.NumCPU()
	if workers > 16 {
		workers = 16
	}
	only := ""
	overlay := map[string]string{}
	bounds := map[string]int{}
	noEvidence := false
	for i := 0; i < len(args); i++ {
		switch args[i] {
		case "--tier":
			i++
			tier = args[i]
		case "--workers":
			i++
			workers, _ = strconv.Atoi(args[i])
		case "--harness":
			i++
			only = args[i]
		case "--overlay":
			i++
			kv := strings.SplitN(args[i], "=", 2)
			overlay[kv[0]] = kv[1]
		case "--bound":
			i++
			kv := strings.SplitN(args[i], "=", 2)
			bounds[kv[0]], _ = strconv.Atoi(kv[1])
		case "--no-evidence":
			noEvidence = true
		case "--budget":
			i++
			d, err := time.ParseDuration(args[i])
			if err != nil {
				usage()
			}
			harnessBudget = d
		default:
			usage()
		}
	}
	if tier == "thorough" && harnessBudget == 15*time.Minute {
		harnessBudget = 90 * time.Minute
	}
	seed, _ := strconv.ParseInt(os.Getenv("VERIF_SEED"), 10, 64)
	t0 := time.Now()
	L := load(property, tier, overlay)
	L.P.seed = seed
	L.P.boundOverride = bounds
	loadS := time.Since(t0).Seconds()
	fmt.Printf("gosymex: property %s tier %s: SSA built from %s in %.1fs, solver %s, %d workers\n", property, tier, repoDir, loadS, solverBin, workers)

	var reports []harnessReport
	total := newStats()
	exit := 0
	inconclusive := false
	nviol := 0
	var knownLines []string
	expected := map[string][]string{}
	reached := map[string]int64{}
	replayDir := filepath.Join(verifDir, "replays", property)
	os.RemoveAll(replayDir)
	for _, H := range L.harnesses {
		if only != "" && H.Name != only {
			continue
		}
		if strings.Contains(H.tiers, "thorough-only") && tier != "thorough" {
			continue
		}
		if strings.Contains(H.tiers, "quick-only") && tier != "quick" {
			continue
		}
		h0 := time.Now()
		st, abort := runHarness(L.P, H, workers)
		rep := harnessReport{Name: H.Name, Paths: st.paths, Decisions: st.decisions, Steps: st.steps, Queries: st.queries, Sat: st.sat, Unsat: st.unsat, Unknown: st.unknown,
			SolverS: st.solverDur.Seconds(), WallS: time.Since(h0).Seconds(), Verdicts: st.verdictQueries, VerdictsOK: st.verdictUnsat, Asserts: st.assertReach, Covers: st.coverReach,
			PathEnds: st.pathEnds, Bounds: st.bounds, MaxDepth: st.maxDepth, Merged: st.mergeCalls - st.mergeAborts, CrossCheck: st.crossChecked, Disagree: st.crossDisagreements, Abort: abort}
		fmt.Printf("  %-28s paths=%d decisions=%d queries=%d (sat %d unsat %d unknown %d) solver=%.1fs wall=%.1fs verdicts=%d/%d\n", H.Name, st.paths, st.decisions, st.queries, st.sat, st.unsat, st.unknown,
			st.solverDur.Seconds(), rep.WallS, st.verdictUnsat, st.verdictQueries)
		if abort != "" {
			fmt.Printf("  INCONCLUSIVE %s: %s\n", H.Name, abort)
			inconclusive = true
		}
		if len(st.inconclusive) > 0 {
			inconclusive = true
			rep.Inconclusiv = uniq(st.inconclusive, 10)
			for _, s := range rep.Inconclusiv {
				fmt.Printf("  INCONCLUSIVE %s: %s\n", H.Name, s)
			}
		}
		// vacuity: every assertion statically reachable from a harness must have been reached by some harness of this run
		if abort == "" {
			for _, id := range expectedAsserts(L.P, H) {
				expected[id] = append(expected[id], H.Name)
			}
			for id, n := range st.assertReach {
				reached[id] += n
			}
			if st.paths == 0 || st.pathEnds["ok"] == 0 {
				fmt.Printf("  VACUOUS %s: no path reached the end of the harness\n", H.Name)
				inconclusive = true
			}
		}
		for id, aid := range st.knownHits {
			knownLines = append(knownLines, fmt.Sprintf("KNOWN-FINDING: property=%s %s (assertion %s, harness %s)", property, knownText(L.P, id), aid, H.Name))
			rep.KnownHits = append(rep.KnownHits, id)
		}
		// violations: replay, classify
		sort.Slice(st.viols, func(i, j int) bool { return len(st.viols[i].Decisions) < len(st.viols[j].Decisions) })
		seen := map[string]int{}
		for _, v := range st.viols {
			key := v.Kind + "|" + v.ID + "|" + v.Msg
			if v.Kind == "assert" {
				key = v.Kind + "|" + v.ID
			}
			seen[key]++
			if seen[key] > 2 {
				continue
			}
			if ke := L.P.matchKnown(v); ke != nil {
				knownLines = append(knownLines, fmt.Sprintf("KNOWN-FINDING: property=%s %s", property, knownBody(ke.text)))
				rep.KnownHits = append(rep.KnownHits, ke.id)
				continue
			}
			v.Replayed = replayViolation(L.P, H, v)
			nviol++
			rp := filepath.Join(replayDir, fmt.Sprintf("%s_%d.json", H.Name, nviol))
			writeJSON(rp, map[string]interface{}{"property": property, "tier": tier, "violation": v})
			if v.Replayed == "confirmed" {
				fmt.Printf("VIOLATION property=%s replay=%s\n", property, rp)
				fmt.Printf("  %s %s in %s: %s %s\n", v.Kind, v.ID, H.Name, v.Msg, v.Pos)
				printModel(v)
				exit = 1
				rep.Violations++
			} else {
				fmt.Printf("  REPLAY-MISMATCH %s %s in %s (%s): %s — not reported as a violation, see %s\n", v.Kind, v.ID, H.Name, v.Replayed, v.Msg, rp)
				inconclusive = true
			}
		}
		reports = append(reports, rep)
		total.merge(st)
	}
	if only == "" {
		var ids []string
		for id := range expected {
			ids = append(ids, id)
		}
		sort.Strings(ids)
		for _, id := range ids {
			if reached[id] == 0 && strings.HasPrefix(id, property+".") {
				fmt.Printf("  VACUOUS: assertion %s (harness %s) was never reached\n", id, strings.Join(expected[id], ","))
				inconclusive = true
			}
		}
	}
	sort.Strings(knownLines)
	for i, l := range knownLines {
		if i == 0 || l != knownLines[i-1] {
			fmt.Println(l)
		}
	}
	if len(reports) == 0 {
		fmt.Println("no harness ran")
		return 2
	}
	wall := time.Since(t0).Seconds()
	if !noEvidence {
		writeEvidence(L.P, property, tier, seed, reports, total, wall, nviol)
	}
	if exit == 1 {
		return 1
	}
	if inconclusive {
		fmt.Printf("INCONCLUSIVE property=%s (no claim made by this run)\n", property)
		return 2
	}
	fmt.Printf("OK property=%s tier=%s paths=%d verdict queries=%d (all unsat or known) wall=%.1fs\n", property, tier, total.paths, total.verdictQueries, wall)
	return 0
}

func knownText(P *Program, id string) string {
	for _, e := range P.knownEntries {
		if e.kind == "known" && e.id == id {
			return knownBody(e.text)
		}
	}
	return id
}

// knownBody: the entry without its "known:" marker and "property=" field (the line that is printed names the
// property being checked itself)
func knownBody(text string) string {
	var out []string
	for _, f := range strings.Fields(text) {
		if f == "known:" || strings.HasPrefix(f, "property=") {
			continue
		}
		out = append(out, f)
	}
	return strings.Join(out, " ")
}

func uniq(s []string, max int) []string {
	seen := map[string]bool{}
	var out []string
	for _, x := range s {
		if !seen[x] && len(out) < max {
			seen[x] = true
			out = append(out, x)
		}
	}
	return out
}

func printModel(v *violation) {
	keys := make([]string, 0, len(v.Model))
	for k := range v.Model {
		keys = append(keys, k)
	}
	sort.Strings(keys)
	n := 0
	for _, k := range keys {
		val := v.Model[k]
		if val == "#x0000000000000000" || val == "false" {
			continue
		}
		if n < 40 {
			fmt.Printf("    %s = %s\n", k, val)
		}
		n++
	}
	for _, t := range lastN(v.Trace, 10) {
		fmt.Printf("    trace: %s\n", t)
	}
}

// expectedAsserts: assertion ids in harness-file functions statically reachable from the harness entry.
func expectedAsserts(P *Program, H *Harness) []string {
	seen := map[*ssa.Function]bool{}
	ids := map[string]bool{}
	var visit func(fn *ssa.Function)
	visit = func(fn *ssa.Function) {
		if fn == nil || seen[fn] || len(fn.Blocks) == 0 {
			return
		}
		seen[fn] = true
		if !P.isHarnessFile(P.prog.Fset.Position(fn.Pos()).Filename) {
			return
		}
		for _, b := range fn.Blocks {
			for _, in := range b.Instrs {
				if mc, ok := in.(*ssa.MakeClosure); ok {
					visit(mc.Fn.(*ssa.Function))
				}
				c, ok := in.(ssa.CallInstruction)
				if !ok {
					continue
				}
				callee := c.Common().StaticCallee()
				if callee == nil {
					continue
				}
				if callee.Pkg != nil && callee.Pkg.Pkg.Path() == P.rtPath && (callee.Name() == "Assert" || callee.Name() == "AssertKnown") {
					if k0, isC := c.Common().Args[0].(*ssa.Const); isC && k0.Value != nil && k0.Value.ExactString() == "false" {
						continue // Assert(false, …) marks a place that must be unreachable
					}
					if k, ok := c.Common().Args[1].(*ssa.Const); ok {
						ids[strings.Trim(k.Value.ExactString(), "\"")] = true
					}
					continue
				}
				visit(callee)
			}
		}
		for _, an := range fn.AnonFuncs {
			visit(an)
		}
	}
	visit(H.fn)
	var out []string
	for id := range ids {
		out = append(out, id)
	}
	sort.Strings(out)
	return out
}

func writeEvidence(P *Program, property, tier string, seed int64, reports []harnessReport, total *stats, wall float64, nviol int) {
	var funcs, stubs []string
	for f := range total.funcs {
		if strings.HasPrefix(f, "stub:") {
			stubs = append(stubs, strings.TrimPrefix(f, "stub:"))
		} else if !strings.Contains(f, "zzverifrt") {
			funcs = append(funcs, f)
		}
	}
	sort.Strings(funcs)
	sort.Strings(stubs)
	var repoFuncs, depFuncs []string
	for _, f := range funcs {
		if strings.Contains(f, repoPath) {
			repoFuncs = append(repoFuncs, strings.ReplaceAll(f, repoPath+"/", ""))
		} else {
			depFuncs = append(depFuncs, f)
		}
	}
	// executed basic blocks -> source lines
	for b := range total.blocks {
		for _, in := range b.Instrs {
			if ps := in.Pos(); ps.IsValid() {
				pp := P.prog.Fset.Position(ps)
				if total.lines[pp.Filename] == nil {
					total.lines[pp.Filename] = map[int]bool{}
				}
				total.lines[pp.Filename][pp.Line] = true
			}
		}
	}
	anchors := map[string]int{}
	for _, a := range propertyAnchors(property) {
		anchors[a] = len(total.lines[filepath.Join(repoDir, a)])
	}
	var queries, sat, unsat, unknown int64
	var solverS float64
	for _, r := range reports {
		queries += r.Queries
		sat += r.Sat
		unsat += r.Unsat
		unknown += r.Unknown
		solverS += r.SolverS
	}
	samples := []interface{}{}
	for _, s := range total.samples {
		samples = append(samples, s)
	}
	if len(samples) == 0 {
		samples = append(samples, map[string]interface{}{"note": "no path with symbolic inputs reached the end of a harness"})
	}
	var uninit []string
	P.uninitRead.Range(func(k, v interface{}) bool { uninit = append(uninit, k.(string)); return true })
	sort.Strings(uninit)
	cov := map[string]interface{}{
		"states":                        total.paths,
		"transitions":                   total.decisions,
		"traces_validated_against_impl": nativeValidated(property),
		"samples":                       samples,
		"explanation": "states = feasible symbolic paths explored to their end (each stands for all values of the symbolic inputs satisfying its path condition); transitions = recorded fork decisions; " +
			"every assertion on every path was decided by an SMT query (pc ∧ ¬assert) — unsat on all of them unless violations are reported",
		"harnesses":                      reports,
		"solver":                         solverBin,
		"solver_queries":                 queries,
		"solver_sat":                     sat,
		"solver_unsat":                   unsat,
		"solver_unknown":                 unknown,
		"solver_time_s":                  solverS,
		"verdict_queries":                total.verdictQueries,
		"verdict_unsat":                  total.verdictUnsat,
		"encoded_repo_functions":         repoFuncs,
		"encoded_dependency_functions":   depFuncs,
		"stubbed_leaves":                 stubs,
		"anchor_lines_executed":          anchors,
		"zero_initialised_foreign_globals": uninit,
		"loop_bound_per_frame":           loopBound,
		"exhaustive":                     false,
	}
	ev := evidence{PropertyID: property, Tier: tier, Seed: seed, Level: "model_checking", Coverage: cov, Assumptions: readAssumptions(property), WallS: wall, Violations: nviol}
	writeJSON(filepath.Join(verifDir, "evidence", property+".json"), ev)
}

func nativeValidated(property string) int {
	b, err := os.ReadFile(filepath.Join(verifDir, "native", "validated_"+property+".count"))
	if err != nil {
		return 0
	}
	n, _ := strconv.Atoi(strings.TrimSpace(string(b)))
	return n
}

func propertyAnchors(property string) []string {
	b, err := os.ReadFile(filepath.Join(verifDir, "properties.jsonl"))
	if err != nil {
		return nil
	}
	for _, ln := range strings.Split(string(b), "\n") {
		var p struct {
			ID      string `json:"id"`
			Anchors struct {
				Files []string `json:"files"`
			} `json:"anchors"`
		}
		if json.Unmarshal([]byte(ln), &p) == nil && p.ID == property {
			return p.Anchors.Files
		}
	}
	return nil
}

func cmdReplay(path string) int {
	b, err := os.ReadFile(path)
	if err != nil {
		fatal(2, err.Error())
	}
	var r struct {
		Property  string     `json:"property"`
		Tier      string     `json:"tier"`
		Violation *violation `json:"violation"`
	}
	if err := json.Unmarshal(b, &r); err != nil {
		fatal(2, err.Error())
	}
	L := load(r.Property, r.Tier, nil)
	for _, H := range L.harnesses {
		if H.Name == r.Violation.Harness {
			res := replayViolation(L.P, H, r.Violation)
			fmt.Printf("replay of %s %s in %s on the current tree: %s\n", r.Violation.Kind, r.Violation.ID, H.Name, res)
			printModel(r.Violation)
			if res == "confirmed" {
				fmt.Printf("VIOLATION property=%s replay=%s\n", r.Property, path)
				return 1
			}
			return 0
		}
	}
	fatal(2, "harness not found: "+r.Violation.Harness)
	return 2
}
