// natives.go: intrinsics of the rt package, stub redirection, native models of runtime-backed library functions.
package main

import (
	"go/token"
	"fmt"
	"go/types"
	"strconv"
	"strings"
	"unicode/utf8"

	"golang.org/x/tools/go/ssa"
)

type handler func(m *M, fn *ssa.Function, args []Value) Value

func strArg(m *M, v Value) string {
	s, ok := m.force(v).(Str)
	if !ok || !s.conc {
		panic(engineErr("intrinsic needs a constant string argument"))
	}
	return s.s
}

func (m *M) resolveSpecial(fn *ssa.Function) (handler, bool) {
	if h, ok := m.H.special.Load(fn); ok {
		if h == nil {
			return nil, false
		}
		hh := h.(handler)
		return hh, hh != nil
	}
	h := m.computeSpecial(fn)
	m.H.special.Store(fn, h)
	return h, h != nil
}

func (m *M) computeSpecial(fn *ssa.Function) handler {
	P := m.P
	name := fn.String()
	oname := name
	if o := fn.Origin(); o != nil {
		oname = o.String()
	}
	pkgPath := ""
	if fn.Pkg != nil {
		pkgPath = fn.Pkg.Pkg.Path()
	} else if o := fn.Origin(); o != nil && o.Pkg != nil {
		pkgPath = o.Pkg.Pkg.Path()
	}
	// 1. rt intrinsics
	if pkgPath == P.rtPath {
		short := fn.Name()
		if o := fn.Origin(); o != nil {
			short = o.Name()
		}
		if h, ok := intrinsics[short]; ok {
			return h
		}
		if len(fn.Blocks) == 0 {
			panic(engineErr("unknown intrinsic " + name))
		}
		return nil
	}
	// 2. package initialisers
	if fn.Name() == "init" && fn.Synthetic != "" && fn.Pkg != nil && fn.Signature.Recv() == nil {
		if !P.initRuns(pkgPath) {
			return func(m *M, fn *ssa.Function, args []Value) Value { return nil }
		}
		return nil
	}
	// 3. harness stubs
	for _, key := range []string{name, oname} {
		if target, ok := m.H.stubs[key]; ok {
			if m.H.inStubBody(fn) {
				break
			}
			t := target
			return func(m *M, fn *ssa.Function, args []Value) Value {
				m.st.funcs["stub:"+fn.String()]++
				return m.callImpl(t, args, nil)
			}
		}
	}
	// 4. native models
	for _, key := range []string{name, oname} {
		if h, ok := nativeModels[key]; ok {
			return h
		}
	}
	return nil
}

func boolArg(m *M, v Value) Bool { return m.force(v).(Bool) }

func symName(m *M, v Value) string { return strArg(m, v) }

var intrinsics map[string]handler

func init() {
	intrinsics = map[string]handler{
		"Bool":   func(m *M, fn *ssa.Function, a []Value) Value { return m.symBool(symName(m, a[0])) },
		"Int":    func(m *M, fn *ssa.Function, a []Value) Value { return m.symInt(symName(m, a[0]), 64, true) },
		"Int64":  func(m *M, fn *ssa.Function, a []Value) Value { return m.symInt(symName(m, a[0]), 64, true) },
		"Uint64": func(m *M, fn *ssa.Function, a []Value) Value { return m.symInt(symName(m, a[0]), 64, false) },
		"Uint8":  func(m *M, fn *ssa.Function, a []Value) Value { return m.symInt(symName(m, a[0]), 8, false) },
		"Float": func(m *M, fn *ssa.Function, a []Value) Value {
			return Float{t: m.sym(symName(m, a[0])+".f", "(_ BitVec 64)")}
		},
		"Choose": func(m *M, fn *ssa.Function, a []Value) Value {
			n := m.force(a[1]).(Int)
			if !n.conc {
				panic(engineErr("Choose with symbolic n"))
			}
			d := m.decide(int(n.v), "choose "+symName(m, a[0]))
			m.tracef("choose %s = %d", symName(m, a[0]), d)
			return cI(d)
		},
		"Atom":       func(m *M, fn *ssa.Function, a []Value) Value { return m.atomSlice(symName(m, a[0])) },
		"AtomString": func(m *M, fn *ssa.Function, a []Value) Value { return m.atomStr(symName(m, a[0])) },
		"Bytes": func(m *M, fn *ssa.Function, a []Value) Value {
			n := int(m.force(a[1]).(Int).v)
			arr := make(Agg, n)
			for i := range arr {
				arr[i] = m.symInt(fmt.Sprintf("%s[%d]", symName(m, a[0]), i), 8, false)
			}
			if n == 0 {
				return Slice{arr: m.newObj(Agg{}), ln: 0, cp: 0}
			}
			return Slice{arr: m.newObj(arr), ln: n, cp: n}
		},
		"String": func(m *M, fn *ssa.Function, a []Value) Value {
			n := int(m.force(a[1]).(Int).v)
			arr := make([]Int, n)
			for i := range arr {
				arr[i] = m.symInt(fmt.Sprintf("%s[%d]", symName(m, a[0]), i), 8, false)
			}
			if n == 0 {
				return cStr("")
			}
			return Str{isArr: true, arr: arr}
		},
		"Time": func(m *M, fn *ssa.Function, a []Value) Value { return m.mkTime(symName(m, a[0])) },
		// DigestOf: an idealised (injective) digest of a text: 32 bytes that spell the text's label and length. Equal
		// texts have equal digests and different texts different ones; nothing else is known about the bytes.
		"DigestOf": func(m *M, fn *ssa.Function, a []Value) Value {
			st := sliceAsStr(m, m.force(a[0]).(Slice))
			if st.isArr {
				panic(engineErr("DigestOf of an array-form text"))
			}
			lenT, labT := strTerms(st)
			out := make(Agg, 32)
			for i := 0; i < 32; i++ {
				switch {
				case i < 8:
					out[i] = Int{w: 8, t: fmt.Sprintf("((_ extract %d %d) %s)", 8*i+7, 8*i, labT)}
				case i < 16:
					out[i] = Int{w: 8, t: fmt.Sprintf("((_ extract %d %d) %s)", 8*(i-8)+7, 8*(i-8), lenT)}
				default:
					out[i] = cInt(8, false, 0)
				}
			}
			return out
		},
		"Big": func(m *M, fn *ssa.Function, a []Value) Value {
			o := m.newObj(m.symInt(symName(m, a[0]), 64, false))
			o.name = "big:" + symName(m, a[0])
			return Ptr{obj: o}
		},
		"BigOf": func(m *M, fn *ssa.Function, a []Value) Value {
			o := m.newObj(m.force(a[0]).(Int))
			o.name = "big"
			return Ptr{obj: o}
		},
		"BigSet": func(m *M, fn *ssa.Function, a []Value) Value {
			p := m.force(a[0]).(Ptr)
			if p.obj == nil {
				panic(goPanic{msg: "invalid memory address or nil pointer dereference (big.Int)"})
			}
			*m.slot(p) = m.force(a[1]).(Int)
			return nil
		},
		"BigOfBytes": func(m *M, fn *ssa.Function, a []Value) Value {
			b := m.force(a[0]).(Slice)
			var v Int
			switch {
			case b.abs:
				v = Int{w: 64, t: b.labT}
			case b.isNil || b.ln == 0:
				v = cInt(64, false, 0)
			default:
				v = Int{w: 64, t: sliceAsStrLabel(m, b)}
			}
			o := m.newObj(v)
			o.name = "big"
			return Ptr{obj: o}
		},
		"BigVal": func(m *M, fn *ssa.Function, a []Value) Value { return bigVal(m, a[0]) },
		"BigEq": func(m *M, fn *ssa.Function, a []Value) Value {
			return m.valEq(bigVal(m, a[0]), bigVal(m, a[1]))
		},
		"BigLess": func(m *M, fn *ssa.Function, a []Value) Value {
			x, y := bigVal(m, a[0]), bigVal(m, a[1])
			if x.conc && y.conc {
				return cBool(x.v < y.v)
			}
			return Bool{t: fmt.Sprintf("(bvult %s %s)", x.term(), y.term())}
		},
		"havocHook":   func(m *M, fn *ssa.Function, a []Value) Value { return nil },
		"lazyMapHook": func(m *M, fn *ssa.Function, a []Value) Value { return nil },
		"Havoc": func(m *M, fn *ssa.Function, a []Value) Value {
			ta := fn.TypeArgs()
			if len(ta) != 1 {
				panic(engineErr("Havoc without type argument"))
			}
			return m.force(Lazy{ta[0], symName(m, a[0])})
		},
		"NoSep": func(m *M, fn *ssa.Function, a []Value) Value {
			s := m.force(a[0]).(Str)
			sep := strArg(m, a[1])
			if s.conc {
				if strings.Contains(s.s, sep) {
					panic(pathEnd{"assume-false"})
				}
				return nil
			}
			m.assume("(not " + m.hasSep(s, sep).t + ")")
			return nil
		},
		"Resolved": func(m *M, fn *ssa.Function, a []Value) Value {
			i := m.force(a[0]).(Iface)
			return cBool(i.u == nil || i.u.resolved)
		},
		"LazyMap": func(m *M, fn *ssa.Function, a []Value) Value {
			uni := m.force(a[0]).(Slice)
			gen := m.force(a[1]).(Closure)
			mo := &MapObj{lazyGen: &gen}
			for _, u := range m.sliceElems(uni) {
				mo.universe = append(mo.universe, copyVal(m.force(u)))
			}
			mo.asked = make([]bool, len(mo.universe))
			return Ptr{obj: m.newObj(mo)}
		},
		"HavocInto": func(m *M, fn *ssa.Function, a []Value) Value {
			i := m.resolveIface(m.force(a[0]).(Iface))
			pt, ok := i.t.Underlying().(*types.Pointer)
			if !ok {
				panic(engineErr("HavocInto needs a pointer"))
			}
			p := i.v.(Ptr)
			if p.obj == nil {
				panic(goPanic{msg: "invalid memory address or nil pointer dereference (decode into nil)"})
			}
			m.store(p, Lazy{pt.Elem(), strArg(m, a[1])})
			return nil
		},
		"Assume": func(m *M, fn *ssa.Function, a []Value) Value {
			if m.merging > 0 {
				panic(mergeAbort{"Assume"})
			}
			c := boolArg(m, a[0])
			if c.conc {
				if !c.v {
					panic(pathEnd{"assume-false"})
				}
				return nil
			}
			if len(m.taken) < len(m.prefix) {
				// feasibility was established by the path that first executed this region
				m.assume(c.t)
				return nil
			}
			if r, ok := m.known[c.t]; ok {
				if !r {
					panic(pathEnd{"assume-false"})
				}
				return nil
			}
			switch m.check(c.t) {
			case resUnsat:
				panic(pathEnd{"assume-infeasible"})
			case resUnknown:
				m.st.inconclusive = append(m.st.inconclusive, "assume query unknown")
				panic(pathEnd{"INCONCLUSIVE"})
			}
			m.assume(c.t)
			m.known[c.t] = true
			return nil
		},
		"Assert": func(m *M, fn *ssa.Function, a []Value) Value {
			m.assertCond(boolArg(m, a[0]), strArg(m, a[1]), "", "", Bool{})
			return nil
		},
		"AssertKnown": func(m *M, fn *ssa.Function, a []Value) Value {
			m.assertCond(boolArg(m, a[0]), strArg(m, a[1]), "", strArg(m, a[2]), boolArg(m, a[3]))
			return nil
		},
		"Cover": func(m *M, fn *ssa.Function, a []Value) Value {
			if len(m.taken) >= len(m.prefix) {
				m.st.coverReach[strArg(m, a[0])]++
			}
			return nil
		},
		"And":     func(m *M, fn *ssa.Function, a []Value) Value { return nBool(bAnd(boolArg(m, a[0]), boolArg(m, a[1]))) },
		"Or":      func(m *M, fn *ssa.Function, a []Value) Value { return nBool(bOr(boolArg(m, a[0]), boolArg(m, a[1]))) },
		"Not":     func(m *M, fn *ssa.Function, a []Value) Value { return bNot(boolArg(m, a[0])) },
		"Implies": func(m *M, fn *ssa.Function, a []Value) Value { return nBool(bOr(bNot(boolArg(m, a[0])), boolArg(m, a[1]))) },
		"Iff":     func(m *M, fn *ssa.Function, a []Value) Value { return nBool(m.valEq(boolArg(m, a[0]), boolArg(m, a[1]))) },
		"IteInt": func(m *M, fn *ssa.Function, a []Value) Value {
			return nInt(iteInt(boolArg(m, a[0]), m.force(a[1]).(Int), m.force(a[2]).(Int)))
		},
		"IteBool": func(m *M, fn *ssa.Function, a []Value) Value {
			return nBool(iteBool(boolArg(m, a[0]), boolArg(m, a[1]), boolArg(m, a[2])))
		},
		"IteTime": func(m *M, fn *ssa.Function, a []Value) Value {
			v, ok := iteVal(boolArg(m, a[0]), forceDeep(m, a[1]), forceDeep(m, a[2]))
			if !ok {
				panic(engineErr("IteTime: not mergeable"))
			}
			return nameVal(v)
		},
		"Same": func(m *M, fn *ssa.Function, a []Value) Value {
			if x0, y0 := m.force(a[0]).(Iface), m.force(a[1]).(Iface); x0.u != nil && x0.u == y0.u {
				return cBool(true) // the very same havoced value, whatever its dynamic type turns out to be
			}
			x, y := m.resolveIface(m.force(a[0]).(Iface)), m.resolveIface(m.force(a[1]).(Iface))
			if x.t == nil || y.t == nil {
				return cBool(x.t == nil && y.t == nil)
			}
			if !types.Identical(x.t, y.t) {
				return cBool(false)
			}
			if xs, ok := m.force(x.v).(Slice); ok {
				ys := m.force(y.v).(Slice)
				if xs.abs && ys.abs {
					return cBool(xs.lenT == ys.lenT && xs.labT == ys.labT)
				}
				return m.valEq(xs, ys)
			}
			if !types.Comparable(x.t) {
				return cBool(false)
			}
			if xs, ok := m.force(x.v).(Str); ok {
				// texts: identity of the value (the same concrete text, or the very same atom)
				ys := m.force(y.v).(Str)
				if xs.conc || ys.conc || xs.isArr || ys.isArr {
					if r := m.strEq(xs, ys); r.conc {
						return r
					}
					return cBool(false)
				}
				return cBool(xs.lenT == ys.lenT && xs.labT == ys.labT)
			}
			return m.valEq(x.v, y.v)
		},
		"BytesEq": func(m *M, fn *ssa.Function, a []Value) Value { return bytesEq(m, m.force(a[0]).(Slice), m.force(a[1]).(Slice)) },
		"StrEq":   func(m *M, fn *ssa.Function, a []Value) Value { return m.strEq(m.force(a[0]).(Str), m.force(a[1]).(Str)) },
		"Bound": func(m *M, fn *ssa.Function, a []Value) Value {
			q, t := int(m.force(a[1]).(Int).signed()), int(m.force(a[2]).(Int).signed())
			v := q
			if m.P.tier == "thorough" {
				v = t
			}
			if ov, ok := m.P.boundOverride[strArg(m, a[0])]; ok {
				v = ov
			}
			m.st.bounds[strArg(m, a[0])] = v
			return cI(v)
		},
		"Thorough": func(m *M, fn *ssa.Function, a []Value) Value { return cBool(m.P.tier == "thorough") },
		"Note": func(m *M, fn *ssa.Function, a []Value) Value {
			msg := strArg(m, a[0])
			if s, ok := m.force(a[1]).(Slice); ok && !s.isNil {
				for _, e := range m.sliceElems(s) {
					msg += " " + describe(m.resolveIface(m.force(e).(Iface)))
				}
			}
			m.tracef("%s", msg)
			return nil
		},
		"Fail": func(m *M, fn *ssa.Function, a []Value) Value { panic(engineErr("harness: " + strArg(m, a[0]))) },
		"Seq":  func(m *M, fn *ssa.Function, a []Value) Value { return cI(m.seq(strArg(m, a[0]))) },
		"Name": func(m *M, fn *ssa.Function, a []Value) Value {
			b := strArg(m, a[0])
			return cStr(fmt.Sprintf("%s#%d", b, m.seq(b)))
		},
		"Goroutines": func(m *M, fn *ssa.Function, a []Value) Value { return cI(m.sched.unfinished()) },
		"IsConcrete": func(m *M, fn *ssa.Function, a []Value) Value { return cBool(boolArg(m, a[0]).conc) },
	}
}

func forceDeep(m *M, v Value) Value {
	v = m.force(v)
	if a, ok := v.(Agg); ok {
		for i := range a {
			a[i] = forceDeep(m, a[i])
		}
	}
	return v
}

func bigVal(m *M, v Value) Int {
	p := m.force(v).(Ptr)
	if p.obj == nil {
		panic(goPanic{msg: "invalid memory address or nil pointer dereference (big.Int)"})
	}
	sl := m.slot(p)
	x, ok := m.force(*sl).(Int)
	if !ok {
		if ag, isAgg := (*sl).(Agg); isAgg && len(ag) == 2 {
			if s, isS := m.force(ag[1]).(Slice); isS && (s.isNil || s.ln == 0) {
				return cInt(64, false, 0) // new(big.Int): zero
			}
		}
		panic(engineErr("big.Int with concrete representation reached the abstract model"))
	}
	return x
}

func sliceAsStr(m *M, s Slice) Str {
	if s.abs {
		return Str{lenT: s.lenT, labT: s.labT}
	}
	if s.isNil || s.ln == 0 {
		return cStr("")
	}
	el := m.sliceElems(s)
	arr := make([]Int, len(el))
	for i, e := range el {
		arr[i] = m.force(e).(Int)
	}
	return normStr(Str{isArr: true, arr: arr})
}

func bytesEq(m *M, a, b Slice) Bool { return m.strEq(sliceAsStr(m, a), sliceAsStr(m, b)) }

// ---- native models (functions whose real body is runtime/assembly-backed or irrelevant)

var nativeModels map[string]handler

func nop(m *M, fn *ssa.Function, a []Value) Value { return zeroResults(fn) }

func concStr(m *M, v Value) (string, bool) {
	s, ok := m.force(v).(Str)
	if !ok {
		return "", false
	}
	s = normStr(s)
	return s.s, s.conc
}

// sync/atomic: goroutines run to completion between blocking points, so an atomic operation is a plain load / store; in
// the footprint race check atomic accesses never conflict with each other but do conflict with a plain access to the
// same word by another goroutine.
func atomicLoad(m *M, fn *ssa.Function, a []Value) Value {
	p := m.force(a[0]).(Ptr)
	if p.obj == nil {
		panic(goPanic{msg: "invalid memory address or nil pointer dereference"})
	}
	m.recordAtomic(p, false)
	return copyVal(*m.slot(p))
}
func atomicStoreRaw(m *M, p Ptr, v Value) {
	if p.obj == nil {
		panic(goPanic{msg: "invalid memory address or nil pointer dereference"})
	}
	if m.merging > 0 {
		panic(mergeAbort{"atomic store"})
	}
	m.recordAtomic(p, true)
	*m.slot(p) = copyVal(v)
}
func atomicStore(m *M, fn *ssa.Function, a []Value) Value {
	atomicStoreRaw(m, m.force(a[0]).(Ptr), a[1])
	return nil
}
func atomicSwap(m *M, fn *ssa.Function, a []Value) Value {
	p := m.force(a[0]).(Ptr)
	old := atomicLoad(m, fn, a)
	atomicStoreRaw(m, p, a[1])
	return old
}
func atomicAdd(m *M, fn *ssa.Function, a []Value) Value {
	p := m.force(a[0]).(Ptr)
	old := atomicLoad(m, fn, a)
	nv := m.binop(token.ADD, old, m.force(a[1]), token.NoPos)
	atomicStoreRaw(m, p, nv)
	return nv
}
func atomicCAS(m *M, fn *ssa.Function, a []Value) Value {
	p := m.force(a[0]).(Ptr)
	old := atomicLoad(m, fn, a)
	if m.branch(m.valEq(old, m.force(a[1]))) {
		atomicStoreRaw(m, p, a[2])
		return cBool(true)
	}
	return cBool(false)
}

func init() {
	for _, t := range []string{"Int32", "Int64", "Uint32", "Uint64", "Uintptr", "Pointer"} {
		t := t
		defer func() {
			nativeModels["sync/atomic.Load"+t] = atomicLoad
			nativeModels["sync/atomic.Store"+t] = atomicStore
			nativeModels["sync/atomic.Swap"+t] = atomicSwap
			nativeModels["sync/atomic.CompareAndSwap"+t] = atomicCAS
			if t != "Pointer" {
				nativeModels["sync/atomic.Add"+t] = atomicAdd
			}
		}()
	}
	nativeModels = map[string]handler{
		"(*sync.WaitGroup).Add": func(m *M, fn *ssa.Function, a []Value) Value {
			m.sched.wg(a[0].(Ptr)).n += int(m.force(a[1]).(Int).signed())
			return nil
		},
		"(*sync.WaitGroup).Done": func(m *M, fn *ssa.Function, a []Value) Value {
			w := m.sched.wg(a[0].(Ptr))
			w.n--
			if w.n < 0 {
				panic(goPanic{msg: "sync: negative WaitGroup counter"})
			}
			w.vc = joinVC(w.vc.clone(), m.sched.cur.release())
			return nil
		},
		"(*sync.WaitGroup).Wait": func(m *M, fn *ssa.Function, a []Value) Value { m.wait(m.sched.wg(a[0].(Ptr))); return nil },
		// goroutines run to completion between blocking points, so a mutex never blocks; what it contributes is the
		// lockset of the accesses made while it is held (footprint race check)
		"(*sync.Mutex).Lock":      func(m *M, fn *ssa.Function, a []Value) Value { m.lockOp(a[0].(Ptr), false, 1); return nil },
		"(*sync.Mutex).Unlock":    func(m *M, fn *ssa.Function, a []Value) Value { m.lockOp(a[0].(Ptr), false, -1); return nil },
		"(*sync.RWMutex).Lock":    func(m *M, fn *ssa.Function, a []Value) Value { m.lockOp(a[0].(Ptr), false, 1); return nil },
		"(*sync.RWMutex).Unlock":  func(m *M, fn *ssa.Function, a []Value) Value { m.lockOp(a[0].(Ptr), false, -1); return nil },
		"(*sync.RWMutex).RLock":   func(m *M, fn *ssa.Function, a []Value) Value { m.lockOp(a[0].(Ptr), true, 1); return nil },
		"(*sync.RWMutex).RUnlock": func(m *M, fn *ssa.Function, a []Value) Value { m.lockOp(a[0].(Ptr), true, -1); return nil },
		"(*sync.Once).Do": func(m *M, fn *ssa.Function, a []Value) Value {
			p := a[0].(Ptr)
			// Once{done atomic.Uint32; m Mutex}: use a side table keyed by object
			key := fmt.Sprintf("once:%d%v", p.obj.id, p.path)
			if _, done := m.lazyMemo[key]; done {
				m.syncAcquire(key)
				return nil
			}
			m.lazyMemo[key] = cBool(true)
			cl := m.force(a[1]).(Closure)
			m.callImpl(cl.fn, nil, cl.fv)
			m.syncRelease(key)
			return nil
		},
		"(*sync.Map).Load": func(m *M, fn *ssa.Function, a []Value) Value {
			mo := m.syncMap(a[0])
			if i := m.mapFind(mo, a[1]); i >= 0 {
				return Tuple{copyVal(mo.vals[i]), cBool(true)}
			}
			return Tuple{Iface{}, cBool(false)}
		},
		"(*sync.Map).Store": func(m *M, fn *ssa.Function, a []Value) Value {
			mo := m.syncMap(a[0])
			if i := m.mapFind(mo, a[1]); i >= 0 {
				mo.vals[i] = copyVal(a[2])
			} else {
				mo.keys, mo.vals = append(mo.keys, copyVal(m.force(a[1]))), append(mo.vals, copyVal(a[2]))
			}
			return nil
		},
		"(*sync.Map).LoadOrStore": func(m *M, fn *ssa.Function, a []Value) Value {
			mo := m.syncMap(a[0])
			if i := m.mapFind(mo, a[1]); i >= 0 {
				return Tuple{copyVal(mo.vals[i]), cBool(true)}
			}
			mo.keys, mo.vals = append(mo.keys, copyVal(m.force(a[1]))), append(mo.vals, copyVal(a[2]))
			return Tuple{a[2], cBool(false)}
		},
		"(*sync.Map).Range": func(m *M, fn *ssa.Function, a []Value) Value {
			mo := m.syncMap(a[0])
			cl := m.force(a[1]).(Closure)
			for i := range mo.keys {
				r := m.callImpl(cl.fn, []Value{mo.keys[i], mo.vals[i]}, cl.fv)
				if !m.branch(r.(Bool)) {
					break
				}
			}
			return nil
		},
		"internal/abi.NoEscape":          func(m *M, fn *ssa.Function, a []Value) Value { return a[0] },
		"internal/bytealg.MakeNoZero": func(m *M, fn *ssa.Function, a []Value) Value {
			n, ok := m.force(a[0]).(Int)
			if !ok || !n.conc || n.signed() < 0 || n.signed() > 1<<20 {
				panic(engineErr("bytealg.MakeNoZero with a symbolic or huge length"))
			}
			ag := make(Agg, int(n.v))
			for i := range ag {
				ag[i] = cInt(8, false, 0)
			}
			return Slice{arr: m.newObj(ag), ln: len(ag), cp: len(ag)}
		},
		"errors.As":                      errorsAs,
		"errors.Is":                      errorsIs,
		"strings.EqualFold":              strFn2(func(a, b string) Value { return cBool(strings.EqualFold(a, b)) }),
		"strings.HasPrefix":              strFn2(func(a, b string) Value { return cBool(strings.HasPrefix(a, b)) }),
		"strings.HasSuffix":              strFn2(func(a, b string) Value { return cBool(strings.HasSuffix(a, b)) }),
		"strings.Contains":               strFn2(func(a, b string) Value { return cBool(strings.Contains(a, b)) }),
		"strings.Index":                  strFn2(func(a, b string) Value { return cI(strings.Index(a, b)) }),
		"strings.Count":                  strFn2(func(a, b string) Value { return cI(strings.Count(a, b)) }),
		"strings.TrimPrefix":             strFn2(func(a, b string) Value { return cStr(strings.TrimPrefix(a, b)) }),
		"strings.TrimSuffix":             strFn2(func(a, b string) Value { return cStr(strings.TrimSuffix(a, b)) }),
		"strings.ToLower":                strFn1(func(a string) Value { return cStr(strings.ToLower(a)) }),
		"strings.ToUpper":                strFn1(func(a string) Value { return cStr(strings.ToUpper(a)) }),
		"strings.TrimSpace":              strFn1(func(a string) Value { return cStr(strings.TrimSpace(a)) }),
		"strings.Join": func(m *M, fn *ssa.Function, a []Value) Value {
			sl := m.force(a[0]).(Slice)
			sep := m.force(a[1]).(Str)
			var r Str
			r = cStr("")
			for i, e := range m.sliceElems(sl) {
				if i > 0 {
					r = m.ropeConcat(r, sep)
				}
				r = m.ropeConcat(r, m.force(e).(Str))
			}
			return r
		},
		"strings.Split": func(m *M, fn *ssa.Function, a []Value) Value {
			s := m.force(a[0]).(Str)
			sep, ok := concStr(m, a[1])
			if !ok || len(sep) != 1 {
				panic(engineErr("strings.Split with a separator other than one concrete byte"))
			}
			var parts Agg
			if cs, isC := concStr(m, s); isC {
				for _, p := range strings.Split(cs, sep) {
					parts = append(parts, cStr(p))
				}
			} else {
				rest := s
				for n := 0; ; n++ {
					if n > 16 {
						panic(engineErr("strings.Split: more than 16 pieces"))
					}
					t := m.ropeCut(rest, sep).(Tuple)
					if !m.branch(t[2].(Bool)) {
						parts = append(parts, rest)
						break
					}
					parts = append(parts, t[0])
					rest = t[1].(Str)
				}
			}
			return Slice{arr: m.newObj(parts), ln: len(parts), cp: len(parts)}
		},
		"strings.Cut": func(m *M, fn *ssa.Function, a []Value) Value {
			s := m.force(a[0]).(Str)
			sep, ok := concStr(m, a[1])
			if !ok || len(sep) != 1 {
				panic(engineErr("strings.Cut with a separator other than one concrete byte"))
			}
			if cs, isC := concStr(m, s); isC {
				b, af, f := strings.Cut(cs, sep)
				return Tuple{cStr(b), cStr(af), cBool(f)}
			}
			return m.ropeCut(s, sep)
		},
		"(encoding/asn1.ObjectIdentifier).String": func(m *M, fn *ssa.Function, a []Value) Value {
			sl := m.force(a[0]).(Slice)
			var parts []string
			for _, e := range m.sliceElems(sl) {
				x := m.force(e).(Int)
				if !x.conc {
					return m.atomStr(fmt.Sprintf("oidtext#%d", m.seq("oidtext")))
				}
				parts = append(parts, strconv.FormatInt(x.signed(), 10))
			}
			return cStr(strings.Join(parts, "."))
		},
		"strconv.FormatInt": func(m *M, fn *ssa.Function, a []Value) Value {
			b := m.force(a[1]).(Int)
			i := m.force(a[0]).(Int)
			if !b.conc {
				panic(engineErr("strconv.FormatInt with symbolic base"))
			}
			if i.conc {
				return cStr(strconv.FormatInt(i.signed(), int(b.signed())))
			}
			return itoa(m, i)
		},
		"strconv.Itoa":                   func(m *M, fn *ssa.Function, a []Value) Value { return itoa(m, a[0]) },
		"internal/bytealg.IndexByteString": func(m *M, fn *ssa.Function, a []Value) Value { return indexByte(m, m.force(a[0]).(Str), a[1]) },
		"internal/bytealg.IndexByte": func(m *M, fn *ssa.Function, a []Value) Value {
			return indexByte(m, sliceAsStr(m, m.force(a[0]).(Slice)), a[1])
		},
		"internal/bytealg.CountString": func(m *M, fn *ssa.Function, a []Value) Value {
			s, ok := concStr(m, a[0])
			c := m.force(a[1]).(Int)
			if !ok || !c.conc {
				panic(engineErr("bytealg.CountString on symbolic input"))
			}
			return cI(strings.Count(s, string([]byte{byte(c.v)})))
		},
		"internal/bytealg.Equal": func(m *M, fn *ssa.Function, a []Value) Value {
			return bytesEq(m, m.force(a[0]).(Slice), m.force(a[1]).(Slice))
		},
		"bytes.Equal": func(m *M, fn *ssa.Function, a []Value) Value {
			return bytesEq(m, m.force(a[0]).(Slice), m.force(a[1]).(Slice))
		},
		"unicode/utf8.RuneCountInString": strFn1(func(a string) Value { return cI(utf8.RuneCountInString(a)) }),
		"unicode/utf8.ValidString":       strFn1(func(a string) Value { return cBool(utf8.ValidString(a)) }),
		"runtime.KeepAlive":              nop,
		"runtime.SetFinalizer":           nop,
		"(*math/big.Int).Cmp": func(m *M, fn *ssa.Function, a []Value) Value {
			x, y := m.force(a[0]).(Ptr), m.force(a[1]).(Ptr)
			if ptrSame(x, y) {
				return cI(0) // also for two nil operands, like the real method
			}
			xv, yv := bigVal(m, x), bigVal(m, y) // nil operands panic like the real method
			if xv.conc && yv.conc {
				switch {
				case xv.v < yv.v:
					return cI(-1)
				case xv.v > yv.v:
					return cI(1)
				}
				return cI(0)
			}
			return nInt(Int{w: 64, sgn: true, t: fmt.Sprintf("(ite (bvult %s %s) (_ bv18446744073709551615 64) (ite (= %s %s) (_ bv0 64) (_ bv1 64)))", xv.term(), yv.term(), xv.term(), yv.term())})
		},
		"(*math/big.Int).BitLen": func(m *M, fn *ssa.Function, a []Value) Value {
			// abstraction: the bit length is a function of the abstract value (its low 16 bits): every length 0..65535 occurs
			v := bigVal(m, a[0])
			if v.conc {
				return cI(int(v.v & 0xFFFF))
			}
			return nInt(Int{w: 64, sgn: true, t: fmt.Sprintf("(bvand %s (_ bv65535 64))", v.t)})
		},
		// time.Time.Truncate(time.Second) on a wall-clock-only time (no monotonic reading): the sub-second part is dropped
		// (time.div: r = sec%1 * Second + nsec = nsec). Native because bvsdiv/bvsrem by 10^9 in every later query is costly.
		"(time.Time).Truncate": func(m *M, fn *ssa.Function, a []Value) Value {
			t := forceDeep(m, a[0]).(Agg)
			d := m.force(a[1]).(Int)
			if !d.conc || d.v != 1000000000 {
				panic(engineErr("time.Truncate with a duration other than time.Second"))
			}
			wall := t[0].(Int)
			if wall.conc {
				if wall.v>>63 != 0 {
					panic(engineErr("time.Truncate on a time with monotonic reading"))
				}
				return Agg{cInt(64, false, 0), t[1], t[2]}
			}
			// symbolic wall: by construction (mkTime) below 10^9, hence no monotonic bit
			return Agg{cInt(64, false, 0), t[1], t[2]}
		},
		"math/big.NewInt": func(m *M, fn *ssa.Function, a []Value) Value {
			o := m.newObj(m.convert(a[0], types.Typ[types.Int64], types.Typ[types.Uint64], 0))
			o.name = "big"
			return Ptr{obj: o}
		},
		"(*math/big.Int).SetBytes": func(m *M, fn *ssa.Function, a []Value) Value {
			p := m.force(a[0]).(Ptr)
			b := m.force(a[1]).(Slice)
			var v Int
			switch {
			case b.abs:
				v = Int{w: 64, t: b.labT} // the number is identified with the bytes it was read from
			case b.isNil || b.ln == 0:
				v = cInt(64, false, 0)
			default:
				v = Int{w: 64, t: sliceAsStrLabel(m, b)}
			}
			*m.slot(p) = v
			return p
		},
		"(*math/big.Int).String": func(m *M, fn *ssa.Function, a []Value) Value {
			p := m.force(a[0]).(Ptr)
			if p.obj == nil {
				return cStr("<nil>")
			}
			return m.atomStr(fmt.Sprintf("bigstr#%d", m.seq("bigstr")))
		},
		"(*math/big.Int).Text": func(m *M, fn *ssa.Function, a []Value) Value {
			p := m.force(a[0]).(Ptr)
			if p.obj == nil {
				return cStr("<nil>")
			}
			return m.atomStr(fmt.Sprintf("bigstr#%d", m.seq("bigstr")))
		},
		"(*math/big.Int).Sign": func(m *M, fn *ssa.Function, a []Value) Value {
			v := bigVal(m, a[0])
			if v.conc {
				return cI(b2i(v.v != 0))
			}
			return Int{w: 64, sgn: true, t: fmt.Sprintf("(ite (= %s (_ bv0 64)) (_ bv0 64) (_ bv1 64))", v.t)}
		},
	}
}


func strFn1(f func(a string) Value) handler {
	return func(m *M, fn *ssa.Function, a []Value) Value {
		s, ok := concStr(m, a[0])
		if !ok {
			panic(engineErr(fn.String() + " on a symbolic string (needs a stub in the harness)"))
		}
		return f(s)
	}
}
func strFn2(f func(a, b string) Value) handler {
	return func(m *M, fn *ssa.Function, a []Value) Value {
		s, ok := concStr(m, a[0])
		t, ok2 := concStr(m, a[1])
		if !ok || !ok2 {
			panic(engineErr(fn.String() + " on a symbolic string (needs a stub in the harness)"))
		}
		return f(s, t)
	}
}

func itoa(m *M, v Value) Value {
	i := m.force(v).(Int)
	if i.conc {
		return cStr(strconv.FormatInt(i.signed(), 10))
	}
	// injective uninterpreted image of the integer
	return Str{lenT: nameTerm("(_ BitVec 64)", fmt.Sprintf("(bvadd (_ bv1 64) (bvand %s (_ bv15 64)))", i.t)), labT: nameTerm("(_ BitVec 64)", fmt.Sprintf("(bvxor %s (_ bv%d 64))", i.t, labelOf("itoa")))}
}

func indexByte(m *M, s Str, cv Value) Value {
	c := m.force(cv).(Int)
	if !s.conc && !s.isArr {
		panic(engineErr("IndexByte on an atom string"))
	}
	bs := strBytes(s)
	for i, b := range bs {
		if m.branch(m.valEq(b, c)) {
			return cI(i)
		}
	}
	return cI(-1)
}

// errorsAs models errors.As: walks the Unwrap chain with the executor's type information.
func errorsAs(m *M, fn *ssa.Function, a []Value) Value {
	err := m.resolveIface(m.force(a[0]).(Iface))
	target := m.resolveIface(m.force(a[1]).(Iface))
	if target.t == nil {
		panic(goPanic{msg: "errors: target cannot be nil"})
	}
	pt, ok := target.t.Underlying().(*types.Pointer)
	if !ok {
		panic(goPanic{msg: "errors: target must be a non-nil pointer"})
	}
	tp := target.v.(Ptr)
	want := pt.Elem()
	var walk func(e Iface) bool
	walk = func(e Iface) bool {
		e = m.resolveIface(e)
		if e.t == nil {
			return false
		}
		match := false
		if it, isI := want.Underlying().(*types.Interface); isI {
			match = types.Implements(e.t, it)
			if match {
				m.store(tp, e)
			}
		} else if types.Identical(e.t, want) {
			match = true
			m.store(tp, e.v)
		}
		if match {
			return true
		}
		// As(any) bool method
		if asM := m.P.methodByName(e.t, "As"); asM != nil && asM.Signature.Params().Len() == 1 {
			r := m.call(asM, []Value{e.v, a[1]})
			if m.branch(r.(Bool)) {
				return true
			}
		}
		if un := m.P.methodByName(e.t, "Unwrap"); un != nil {
			r := m.call(un, []Value{e.v})
			switch x := r.(type) {
			case Iface:
				return walk(x)
			case Slice:
				for _, el := range m.sliceElems(x) {
					if walk(m.force(el).(Iface)) {
						return true
					}
				}
			}
		}
		return false
	}
	return cBool(walk(err))
}

// errorsIs models errors.Is (the real one needs reflectlite for the comparability test).
func errorsIs(m *M, fn *ssa.Function, a []Value) Value {
	err := m.resolveIface(m.force(a[0]).(Iface))
	target := m.resolveIface(m.force(a[1]).(Iface))
	if err.t == nil || target.t == nil {
		return cBool(err.t == nil && target.t == nil)
	}
	comparable := types.Comparable(target.t)
	var walk func(e Iface) bool
	walk = func(e Iface) bool {
		e = m.resolveIface(e)
		if e.t == nil {
			return false
		}
		if comparable && types.Identical(e.t, target.t) {
			if m.branch(m.valEq(e.v, target.v)) {
				return true
			}
		}
		if isM := m.P.methodByName(e.t, "Is"); isM != nil && isM.Signature.Params().Len() == 1 {
			r := m.call(isM, []Value{e.v, target})
			if m.branch(r.(Bool)) {
				return true
			}
		}
		if un := m.P.methodByName(e.t, "Unwrap"); un != nil {
			r := m.call(un, []Value{e.v})
			switch x := r.(type) {
			case Iface:
				return walk(x)
			case Slice:
				for _, el := range m.sliceElems(x) {
					if walk(m.force(el).(Iface)) {
						return true
					}
				}
			}
		}
		return false
	}
	return cBool(walk(err))
}

// syncMap: side table for sync.Map objects, keyed by the address of the Map value.
func (m *M) syncMap(v Value) *MapObj {
	p := m.force(v).(Ptr)
	if p.obj == nil {
		panic(goPanic{msg: "invalid memory address or nil pointer dereference (sync.Map)"})
	}
	key := fmt.Sprintf("syncmap:%d%v", p.obj.id, p.path)
	if g, ok := m.lazyMemo[key]; ok {
		return g.(Ptr).obj.v.(*MapObj)
	}
	mo := &MapObj{}
	o := m.newObj(mo)
	o.ghost = p.obj.ghost
	m.lazyMemo[key] = Ptr{obj: o}
	return mo
}

// ---- ropes: a string built by concatenating concrete pieces and atoms remembers its pieces (per path), so that
// strings.Cut can take it apart again. Whether an atom contains the separator is an uninterpreted predicate.
func (m *M) ropeParts(s Str) []Str {
	if s.conc {
		if s.s == "" {
			return nil
		}
		return []Str{s}
	}
	if s.isArr {
		panic(engineErr("rope of array-form string"))
	}
	if v, ok := m.lazyMemo["rope:"+s.labT]; ok {
		return v.([]Str)
	}
	return []Str{s}
}

func (m *M) ropeOf(parts []Str) Str {
	// merge adjacent concrete pieces
	var ps []Str
	for _, p := range parts {
		if p.conc && p.s == "" {
			continue
		}
		if p.conc && len(ps) > 0 && ps[len(ps)-1].conc {
			ps[len(ps)-1] = cStr(ps[len(ps)-1].s + p.s)
			continue
		}
		ps = append(ps, p)
	}
	switch len(ps) {
	case 0:
		return cStr("")
	case 1:
		return ps[0]
	}
	r := ps[0]
	for _, p := range ps[1:] {
		r = m.strConcat(r, p)
	}
	m.lazyMemo["rope:"+r.labT] = ps
	return r
}

func (m *M) ropeConcat(a, b Str) Str {
	return m.ropeOf(append(append([]Str{}, m.ropeParts(a)...), m.ropeParts(b)...))
}

func (m *M) hasSep(atom Str, sep string) Bool {
	key := "hassep:" + sep + ":" + atom.labT
	if v, ok := m.lazyMemo[key]; ok {
		return v.(Bool)
	}
	b := m.symBool(fmt.Sprintf("contains%q.%d", sep, m.seq("hassep")))
	// an empty string contains nothing
	m.assume(fmt.Sprintf("(=> (= %s (_ bv0 64)) (not %s))", atom.lenT, b.t))
	m.lazyMemo[key] = b
	m.tracef("%s <=> %s contains %q", b.t, atom.labT, sep)
	return b
}

func (m *M) ropeCut(s Str, sep string) Value {
	parts := m.ropeParts(s)
	for i, p := range parts {
		if p.conc {
			if j := strings.Index(p.s, sep); j >= 0 {
				before := append(append([]Str{}, parts[:i]...), cStr(p.s[:j]))
				after := append([]Str{cStr(p.s[j+1:])}, parts[i+1:]...)
				return Tuple{m.ropeOf(before), m.ropeOf(after), cBool(true)}
			}
			continue
		}
		if m.branch(m.hasSep(p, sep)) {
			// cut inside the atom: the two halves are fresh atoms (the second may contain further separators)
			n := m.seq("cutpiece")
			pre, post := m.atomStr(fmt.Sprintf("cut%d.before", n)), m.atomStr(fmt.Sprintf("cut%d.after", n))
			m.assume(fmt.Sprintf("(not %s)", m.hasSep(pre, sep).t))
			before := append(append([]Str{}, parts[:i]...), pre)
			after := append([]Str{post}, parts[i+1:]...)
			return Tuple{m.ropeOf(before), m.ropeOf(after), cBool(true)}
		}
	}
	return Tuple{s, cStr(""), cBool(false)}
}

func sliceAsStrLabel(m *M, b Slice) string {
	s := sliceAsStr(m, b)
	if s.conc {
		return fmt.Sprintf("(_ bv%d 64)", labelOf(s.s))
	}
	panic(engineErr("big.Int.SetBytes on array-form bytes"))
}
