// conc.go: maps, defers/recover, goroutines, channels, footprints (DESIGN.md 2.3).
package main

import (
	"fmt"
	"go/token"
	"go/types"
	"sort"
	"strings"

	"golang.org/x/tools/go/ssa"
)

func (m *M) mapFind(mo *MapObj, k Value) int {
	k = m.force(k)
	if i, ok := k.(Iface); ok {
		i = m.resolveIface(i)
		k = i
		if i.t != nil && !types.Comparable(i.t) {
			panic(goPanic{msg: "runtime error: hash of unhashable type " + i.t.String()})
		}
	}
	if mo.lazyGen != nil {
		m.lazyLookup(mo, k)
	}
	for i, x := range mo.keys {
		b := m.valEq(x, k)
		if m.branch(b) {
			return i
		}
	}
	return -1
}

func isConcKey(v Value) bool {
	switch x := v.(type) {
	case Int:
		return x.conc
	case Str:
		return x.conc
	case Bool:
		return x.conc
	case Iface:
		return x.u == nil && x.t != nil && isConcKey(x.v)
	}
	return false
}

// lazyLookup materialises what a lookup of k can observe: only the universe key that equals k (if any).
// For a symbolic k the equality with each undecided universe key is a (solver-decided) fork.
func (m *M) lazyLookup(mo *MapObj, k Value) {
	if k == nil {
		m.materialiseAll(mo)
		return
	}
	for i, u := range mo.universe {
		if mo.asked[i] {
			continue
		}
		eq := m.valEqSafe(u, k)
		if eq.conc && !eq.v {
			continue
		}
		if m.branch(eq) {
			m.materialise(mo, i)
			return
		}
	}
}

func (m *M) valEqSafe(a, b Value) Bool {
	ia, oka := a.(Iface)
	ib, okb := b.(Iface)
	if oka && okb && (ia.t == nil || ib.t == nil || !types.Identical(ia.t, ib.t)) {
		return cBool(ia.t == nil && ib.t == nil)
	}
	return m.valEq(a, b)
}

func (m *M) materialiseAll(mo *MapObj) {
	if mo.lazyGen == nil {
		return
	}
	for i := range mo.universe {
		if !mo.asked[i] {
			m.materialise(mo, i)
		}
	}
}

func (m *M) materialise(mo *MapObj, i int) {
	mo.asked[i] = true
	r := m.callImpl(mo.lazyGen.fn, []Value{mo.universe[i]}, mo.lazyGen.fv).(Tuple)
	if m.branch(r[1].(Bool)) {
		mo.keys = append(mo.keys, copyVal(m.force(mo.universe[i])))
		mo.vals = append(mo.vals, copyVal(r[0]))
	}
}

type Task struct {
	id     int
	fn     Closure
	args   []Value
	reads  map[string]int // "location\x00lockset" -> sequence number of the LAST such access
	writes map[string]int
	parent  *Task
	bornSeq int // sequence number at the go statement: the spawner's earlier accesses happen before everything here
	held   map[string]int
	// atomic accesses: never in conflict with each other, but in conflict with a plain access of another goroutine
	areads  map[string]int
	awrites map[string]int
	done    bool
}

type WG struct{ n int }

type Sched struct {
	seq     int // sequence numbers of recorded accesses
	pending []*Task
	all     []*Task
	cur     *Task
	mainT   *Task
	wgs     map[*Obj]*WG
	joined  bool
}

func newSched() *Sched {
	s := &Sched{wgs: map[*Obj]*WG{}}
	s.mainT = &Task{id: 0, reads: map[string]int{}, writes: map[string]int{}}
	s.cur = s.mainT
	s.all = []*Task{s.mainT}
	return s
}

func locKey(p Ptr) string { return fmt.Sprintf("%s#%d%v", p.obj.name, p.obj.id, p.path) }

func (m *M) recordAccess(p Ptr, write bool) {
	s := m.sched
	if s == nil || p.obj == nil || !m.tracking || p.obj.ghost || (s.cur == s.mainT && s.joined) {
		return
	}
	t := s.cur
	k := locKey(p) + "\x00" + t.lockset()
	s.seq++
	if write {
		t.writes[k] = s.seq
	} else {
		t.reads[k] = s.seq
	}
}

// recordAtomic: footprint of a sync/atomic operation
func (m *M) recordAtomic(p Ptr, write bool) {
	s := m.sched
	if s == nil || p.obj == nil || !m.tracking || p.obj.ghost || (s.cur == s.mainT && s.joined) {
		return
	}
	t := s.cur
	if t.areads == nil {
		t.areads, t.awrites = map[string]int{}, map[string]int{}
	}
	k := locKey(p) + "\x00" + t.lockset()
	s.seq++
	if write {
		t.awrites[k] = s.seq
	} else {
		t.areads[k] = s.seq
	}
}

// lockset: the mutexes the task holds right now, "X<key>" exclusively or "S<key>" shared, sorted, ';'-separated.
func (t *Task) lockset() string {
	if len(t.held) == 0 {
		return ""
	}
	var ks []string
	for k, n := range t.held {
		if n > 0 {
			ks = append(ks, k)
		}
	}
	sort.Strings(ks)
	return strings.Join(ks, ";")
}

func (m *M) lockOp(p Ptr, shared bool, delta int) {
	s := m.sched
	if s == nil || p.obj == nil {
		return
	}
	t := s.cur
	if t.held == nil {
		t.held = map[string]int{}
	}
	k := "X"
	if shared {
		k = "S"
	}
	id := fmt.Sprintf("%d%v", p.obj.id, p.path)
	if delta > 0 {
		// a goroutine that blocks while holding a mutex would make another one wait here: not modelled
		for _, o := range s.all {
			if o != t && (o.held["X"+id] > 0 || (!shared && o.held["S"+id] > 0)) {
				panic(engineErr("mutex acquired while another goroutine holds it across a blocking point (not modelled)"))
			}
		}
	}
	k += id
	t.held[k] += delta
	if t.held[k] < 0 {
		panic(goPanic{msg: "sync: unlock of unlocked mutex"})
	}
}

// protected: do two accesses made under these locksets exclude each other (a common mutex, not both shared)?
func protected(la, lb string) bool {
	if la == "" || lb == "" {
		return false
	}
	hb := map[string]bool{}
	for _, k := range strings.Split(lb, ";") {
		hb[k] = true
	}
	for _, k := range strings.Split(la, ";") {
		key := k[1:]
		if k[0] == 'X' && (hb["X"+key] || hb["S"+key]) {
			return true
		}
		if k[0] == 'S' && hb["X"+key] {
			return true
		}
	}
	return false
}

func splitAccess(k string) (loc, locks string) {
	i := strings.IndexByte(k, 0)
	return k[:i], k[i+1:]
}

func (s *Sched) wg(p Ptr) *WG {
	w, ok := s.wgs[p.obj]
	if !ok {
		w = &WG{}
		s.wgs[p.obj] = w
	}
	return w
}

func (m *M) spawn(fn Closure, args []Value) {
	if m.merging > 0 {
		panic(mergeAbort{"go statement"})
	}
	s := m.sched
	t := &Task{id: len(s.all), fn: fn, args: args, reads: map[string]int{}, writes: map[string]int{}, parent: s.cur}
	s.all = append(s.all, t)
	s.pending = append(s.pending, t)
	if !m.tracking {
		m.tracking = true
		s.joined = false
		s.mainT.reads, s.mainT.writes = map[string]int{}, map[string]int{}
	}
	t.bornSeq = s.seq
}

// runTask runs one pending task to completion. A panic escaping a goroutine kills the process.
func (m *M) runTask(k int) {
	s := m.sched
	t := s.pending[k]
	s.pending = append(append([]*Task{}, s.pending[:k]...), s.pending[k+1:]...)
	saved := s.cur
	s.cur = t
	savedDefer := m.deferStack
	m.deferStack = nil
	func() {
		defer func() {
			if r := recover(); r != nil {
				if gp, ok := r.(goPanic); ok {
					panic(pathEnd{"PROCESS-ABORT: panic escaped a goroutine: " + gp.msg + " @" + gp.pos})
				}
				panic(r)
			}
		}()
		m.callImpl(t.fn.fn, t.args, t.fn.fv)
	}()
	m.deferStack = savedDefer
	t.done = true
	s.cur = saved
}

func (m *M) wait(w *WG) {
	s := m.sched
	for w.n > 0 {
		if len(s.pending) == 0 {
			panic(pathEnd{"DEADLOCK: WaitGroup.Wait with counter > 0 and no runnable goroutine"})
		}
		k := m.decide(len(s.pending), "schedule")
		m.runTask(k)
	}
	if w.n < 0 {
		panic(goPanic{msg: "sync: negative WaitGroup counter"})
	}
	if len(s.pending) == 0 {
		s.joined = true
	}
}

// spawnedAfter: is task d a descendant of task t that was started (transitively) by a go statement executed after t's
// access with sequence number seq? Then that access happens before everything d does.
func spawnedAfter(t *Task, seq int, d *Task) bool {
	for c := d; c != nil && c.parent != nil; c = c.parent {
		if c.parent == t {
			return seq <= c.bornSeq
		}
	}
	return false
}

func (m *M) checkRaces() []string {
	var out []string
	s := m.sched
	for i, a := range s.all {
		for j, b := range s.all {
			if i >= j {
				continue
			}
			conflict := func(x, y map[string]int, tx, ty *Task) {
				for kx, sx := range x {
					if spawnedAfter(tx, sx, ty) {
						continue // all of tx's accesses of this kind precede the go statement that leads to ty
					}
					lx, hx := splitAccess(kx)
					for ky, sy := range y {
						if spawnedAfter(ty, sy, tx) {
							continue
						}
						ly, hy := splitAccess(ky)
						if lx == ly && !protected(hx, hy) {
							out = append(out, fmt.Sprintf("goroutine%d/goroutine%d on %s", a.id, b.id, lx))
						}
					}
				}
			}
			conflict(a.writes, b.writes, a, b)
			conflict(a.writes, b.reads, a, b)
			conflict(b.writes, a.reads, b, a)
			// atomic against plain
			conflict(a.awrites, b.writes, a, b)
			conflict(a.awrites, b.reads, a, b)
			conflict(a.areads, b.writes, a, b)
			conflict(b.awrites, a.writes, b, a)
			conflict(b.awrites, a.reads, b, a)
			conflict(b.areads, a.writes, b, a)
		}
	}
	sort.Strings(out)
	return out
}

// ---- instructions beyond the core set
func (f *frame) extra(in ssa.Instruction) bool {
	m := f.m
	switch x := in.(type) {
	case *ssa.MakeMap:
		f.env[x] = Ptr{obj: m.newObj(&MapObj{})}
	case *ssa.MapUpdate:
		mpp := f.get(x.Map).(Ptr)
		if mpp.obj == nil {
			panic(goPanic{msg: "assignment to entry in nil map", pos: m.pos(x.Pos())})
		}
		if m.merging > 0 && (mpp.obj.glob || mpp.obj.id < m.mergeBorn) {
			panic(mergeAbort{"map update"})
		}
		mo := mpp.obj.v.(*MapObj)
		k, v := f.get(x.Key), f.get(x.Value)
		if i := m.mapFind(mo, k); i >= 0 {
			mo.vals[i] = copyVal(v)
		} else {
			mo.keys, mo.vals = append(mo.keys, copyVal(m.force(k))), append(mo.vals, copyVal(v))
		}
	case *ssa.Lookup:
		if s, ok := m.force(f.get(x.X)).(Str); ok {
			f.env[x] = m.strIndex(s, f.get(x.Index), x.Pos())
			return true
		}
		mp := f.get(x.X).(Ptr)
		var res Value
		found := false
		if mp.obj != nil {
			mo := mp.obj.v.(*MapObj)
			if i := m.mapFind(mo, f.get(x.Index)); i >= 0 {
				res, found = copyVal(mo.vals[i]), true
			}
		}
		if !found {
			res = zero(x.X.Type().Underlying().(*types.Map).Elem())
		}
		if x.CommaOk {
			f.env[x] = Tuple{res, cBool(found)}
		} else {
			f.env[x] = res
		}
	case *ssa.Range:
		switch c := m.force(f.get(x.X)).(type) {
		case Str:
			cc := c
			f.env[x] = &MapIter{str: &cc}
		case Ptr:
			it := &MapIter{}
			if c.obj != nil {
				mo := c.obj.v.(*MapObj)
				m.materialiseAll(mo)
				it.keys = append([]Value{}, mo.keys...)
				it.vals = append([]Value{}, mo.vals...)
				if m.P.mapOrders && len(it.keys) >= 2 {
					// iteration order is a shape choice: insertion order or its reverse
					if m.decide(2, "map order") == 1 {
						for i, j := 0, len(it.keys)-1; i < j; i, j = i+1, j-1 {
							it.keys[i], it.keys[j] = it.keys[j], it.keys[i]
							it.vals[i], it.vals[j] = it.vals[j], it.vals[i]
						}
					}
				}
			}
			f.env[x] = it
		default:
			panic(engineErr(fmt.Sprintf("range over %T", c)))
		}
	case *ssa.Next:
		it := f.get(x.Iter).(*MapIter)
		if x.IsString {
			if !it.str.conc {
				panic(engineErr("range over symbolic string at " + m.pos(x.Pos())))
			}
			s := it.str.s
			if it.i >= len(s) {
				f.env[x] = Tuple{cBool(false), cI(0), cInt(32, true, 0)}
			} else {
				var r rune
				var sz int
				for j, rr := range s[it.i:] {
					if j == 0 {
						r = rr
						sz = len(string(rr))
						if rr == 0xFFFD {
							sz = 1
						}
					}
					break
				}
				f.env[x] = Tuple{cBool(true), cI(it.i), cInt(32, true, uint64(r))}
				it.i += sz
			}
			return true
		}
		mt := x.Iter.(*ssa.Range).X.Type().Underlying().(*types.Map)
		if it.i >= len(it.keys) {
			f.env[x] = Tuple{cBool(false), zero(mt.Key()), zero(mt.Elem())}
		} else {
			f.env[x] = Tuple{cBool(true), it.keys[it.i], it.vals[it.i]}
			it.i++
		}
	case *ssa.Defer:
		d := deferred{}
		for _, a := range x.Call.Args {
			d.args = append(d.args, f.get(a))
		}
		if b, ok := x.Call.Value.(*ssa.Builtin); ok {
			d.bi = b.Name()
		} else if x.Call.IsInvoke() {
			recv := m.resolveIface(f.get(x.Call.Value).(Iface))
			if recv.t == nil {
				panic(goPanic{msg: "invalid memory address or nil pointer dereference (defer on nil interface)", pos: m.pos(x.Pos())})
			}
			d.fn = Closure{fn: m.P.lookupMethod(recv.t, x.Call.Method)}
			d.args = append([]Value{recv.v}, d.args...)
		} else {
			d.fn = f.get(x.Call.Value)
		}
		f.defers = append(f.defers, d)
	case *ssa.RunDefers:
		f.runDefers()
	case *ssa.Go:
		var args []Value
		var cl Closure
		if x.Call.IsInvoke() {
			recv := m.resolveIface(f.get(x.Call.Value).(Iface))
			cl = Closure{fn: m.P.lookupMethod(recv.t, x.Call.Method)}
			args = append(args, recv.v)
		} else {
			cl = f.get(x.Call.Value).(Closure)
		}
		for _, a := range x.Call.Args {
			args = append(args, f.get(a))
		}
		m.spawn(cl, args)
	case *ssa.MakeChan:
		f.env[x] = Ptr{obj: m.newObj(&Chan{cap: m.concIndex(f.get(x.Size), 1<<20, "chan size")})}
	case *ssa.Send:
		cp := f.get(x.Chan).(Ptr)
		if cp.obj == nil {
			panic(pathEnd{"DEADLOCK: send on nil channel blocks forever"})
		}
		c := cp.obj.v.(*Chan)
		if c.closed {
			panic(goPanic{msg: "send on closed channel", pos: m.pos(x.Pos())})
		}
		if len(c.buf) >= c.cap {
			panic(pathEnd{"DEADLOCK: send on full channel blocks forever @" + m.pos(x.Pos())})
		}
		c.buf = append(c.buf, f.get(x.X))
	case *ssa.Select:
		f.env[x] = f.doSelect(x)
	default:
		return false
	}
	return true
}

func (f *frame) recv(x *ssa.UnOp) Value {
	m := f.m
	cp := f.get(x.X).(Ptr)
	et := x.X.Type().Underlying().(*types.Chan).Elem()
	if cp.obj == nil {
		panic(pathEnd{"DEADLOCK: receive from nil channel"})
	}
	c := cp.obj.v.(*Chan)
	for len(c.buf) == 0 && !c.closed {
		// let other goroutines run
		if len(m.sched.pending) == 0 {
			panic(pathEnd{"DEADLOCK: receive on empty channel with no runnable goroutine @" + m.pos(x.Pos())})
		}
		m.runTask(m.decide(len(m.sched.pending), "schedule"))
	}
	var v Value
	ok := false
	if len(c.buf) > 0 {
		v, ok = c.buf[0], true
		c.buf = c.buf[1:]
	} else {
		v = zero(et)
	}
	if x.CommaOk {
		return Tuple{v, cBool(ok)}
	}
	return v
}

func (f *frame) doSelect(x *ssa.Select) Value {
	m := f.m
	// result tuple: (index int, recvOk bool, r_0 T_0, ... r_n-1 T_n-1) for receive states
	var recvTypes []types.Type
	for _, st := range x.States {
		if st.Dir == types.RecvOnly {
			recvTypes = append(recvTypes, st.Chan.Type().Underlying().(*types.Chan).Elem())
		}
	}
	mk := func(idx int, ok bool, which int, v Value) Tuple {
		t := Tuple{cI(idx), cBool(ok)}
		for i, rt := range recvTypes {
			if i == which {
				t = append(t, v)
			} else {
				t = append(t, zero(rt))
			}
		}
		return t
	}
	var ready []int
	for i, st := range x.States {
		cp := f.get(st.Chan).(Ptr)
		if cp.obj == nil {
			continue
		}
		c := cp.obj.v.(*Chan)
		if st.Dir == types.RecvOnly && (len(c.buf) > 0 || c.closed) {
			ready = append(ready, i)
		}
		if st.Dir == types.SendOnly && (len(c.buf) < c.cap || c.closed) {
			ready = append(ready, i)
		}
	}
	if len(ready) == 0 {
		if !x.Blocking {
			return mk(-1, false, -1, nil)
		}
		panic(pathEnd{"DEADLOCK: blocking select with no ready case @" + m.pos(x.Pos())})
	}
	pick := ready[m.decide(len(ready), "select")]
	st := x.States[pick]
	c := f.get(st.Chan).(Ptr).obj.v.(*Chan)
	if st.Dir == types.SendOnly {
		if c.closed {
			panic(goPanic{msg: "send on closed channel"})
		}
		c.buf = append(c.buf, f.get(st.Send))
		return mk(pick, false, -1, nil)
	}
	which := 0
	for i := 0; i < pick; i++ {
		if x.States[i].Dir == types.RecvOnly {
			which++
		}
	}
	if len(c.buf) > 0 {
		v := c.buf[0]
		c.buf = c.buf[1:]
		return mk(pick, true, which, v)
	}
	return mk(pick, false, which, zero(recvTypes[which]))
}

func (f *frame) runDefers() {
	m := f.m
	for len(f.defers) > 0 {
		d := f.defers[len(f.defers)-1]
		f.defers = f.defers[:len(f.defers)-1]
		m.deferStack = append(m.deferStack, f)
		func() {
			defer func() { m.deferStack = m.deferStack[:len(m.deferStack)-1] }()
			defer func() {
				// a panic raised by a deferred call replaces the current one
				if r := recover(); r != nil {
					if gp, ok := r.(goPanic); ok {
						f.panicking = &gp
						return
					}
					panic(r)
				}
			}()
			switch {
			case d.bi == "close":
				c := d.args[0].(Ptr).obj.v.(*Chan)
				if c.closed {
					panic(goPanic{msg: "close of closed channel"})
				}
				c.closed = true
			case d.bi == "recover":
				m.doRecover()
			case d.bi != "":
				panic(engineErr("deferred builtin " + d.bi))
			default:
				cl := d.fn.(Closure)
				if cl.fn == nil {
					panic(goPanic{msg: "invalid memory address or nil pointer dereference (deferred nil func)"})
				}
				m.callImpl(cl.fn, d.args, cl.fv)
			}
		}()
	}
}

func (m *M) doRecover() Value {
	if len(m.deferStack) == 0 {
		return Iface{}
	}
	fr := m.deferStack[len(m.deferStack)-1]
	if fr.panicking == nil {
		return Iface{}
	}
	p := fr.panicking
	fr.panicking = nil
	if p.val != nil {
		return p.val
	}
	return m.P.runtimeErrorValue(m, p.msg)
}

var _ = token.NoPos
