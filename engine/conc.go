// conc.go: maps, defers/recover, goroutines, channels, footprints (DESIGN.md 2.3).
package main

import (
	"fmt"
	"go/token"
	"go/types"
	"sort"
	"strings"

	"golang.org/x/tools/go/ssa"
)

func (m *M) mapFind(mo *MapObj, k Value) int {
	k = m.force(k)
	if i, ok := k.(Iface); ok {
		i = m.resolveIface(i)
		k = i
		if i.t != nil && !types.Comparable(i.t) {
			panic(goPanic{msg: "runtime error: hash of unhashable type " + i.t.String()})
		}
	}
	if mo.lazyGen != nil {
		m.lazyLookup(mo, k)
	}
	for i, x := range mo.keys {
		b := m.valEq(x, k)
		if m.branch(b) {
			return i
		}
	}
	return -1
}

func isConcKey(v Value) bool {
	switch x := v.(type) {
	case Int:
		return x.conc
	case Str:
		return x.conc
	case Bool:
		return x.conc
	case Iface:
		return x.u == nil && x.t != nil && isConcKey(x.v)
	}
	return false
}

// lazyLookup materialises what a lookup of k can observe: only the universe key that equals k (if any).
// For a symbolic k the equality with each undecided universe key is a (solver-decided) fork.
func (m *M) lazyLookup(mo *MapObj, k Value) {
	if k == nil {
		m.materialiseAll(mo)
		return
	}
	for i, u := range mo.universe {
		if mo.asked[i] {
			continue
		}
		eq := m.valEqSafe(u, k)
		if eq.conc && !eq.v {
			continue
		}
		if m.branch(eq) {
			m.materialise(mo, i)
			return
		}
	}
}

func (m *M) valEqSafe(a, b Value) Bool {
	ia, oka := a.(Iface)
	ib, okb := b.(Iface)
	if oka && okb && (ia.t == nil || ib.t == nil || !types.Identical(ia.t, ib.t)) {
		return cBool(ia.t == nil && ib.t == nil)
	}
	return m.valEq(a, b)
}

func (m *M) materialiseAll(mo *MapObj) {
	if mo.lazyGen == nil {
		return
	}
	for i := range mo.universe {
		if !mo.asked[i] {
			m.materialise(mo, i)
		}
	}
}

func (m *M) materialise(mo *MapObj, i int) {
	mo.asked[i] = true
	r := m.callImpl(mo.lazyGen.fn, []Value{mo.universe[i]}, mo.lazyGen.fv).(Tuple)
	if m.branch(r[1].(Bool)) {
		mo.keys = append(mo.keys, copyVal(m.force(mo.universe[i])))
		mo.vals = append(mo.vals, copyVal(r[0]))
	}
}

// VC: vector clock indexed by task id.
type VC []int

func (v VC) at(i int) int {
	if i < len(v) {
		return v[i]
	}
	return 0
}
func (v VC) clone() VC { return append(VC(nil), v...) }
func joinVC(a, b VC) VC {
	if len(b) > len(a) {
		a = append(a, make(VC, len(b)-len(a))...)
	}
	for i, x := range b {
		if x > a[i] {
			a[i] = x
		}
	}
	return a
}

// accRec: one class of accesses of a task to a location — same epoch (no synchronisation in between), same lockset.
type accRec struct {
	vc     VC // the task's clock when the accesses were made (immutable snapshot)
	locks  string
	write  bool
	atomic bool
}

type Task struct {
	id     int
	fn     Closure
	args   []Value
	parent *Task
	held   map[string]int
	// happens-before: vector clock, snapshot shared by the accesses of the current epoch
	vc   VC
	snap VC
	acc  map[string][]accRec
	done bool
	// coroutine state: every goroutine of the program under test runs on a Go goroutine of its own; exactly one of them
	// holds the baton. A goroutine that cannot proceed parks with the condition it waits for.
	wake     chan struct{}
	started  bool
	finished bool
	cond     func() bool
	what     string
	sDefer   []*frame
	sDepth   int
	sStack   []*ssa.Function
}

type WG struct {
	n  int
	vc VC
}

type taskKill struct{}

type Sched struct {
	all       []*Task
	cur       *Task
	mainT     *Task
	wgs       map[*Obj]*WG
	syncVC    map[string]VC // mutexes, onces, atomically accessed words
	joined    bool
	killing   bool
	killAck   chan struct{}
	taskPanic interface{}
}

func newSched() *Sched {
	s := &Sched{wgs: map[*Obj]*WG{}, syncVC: map[string]VC{}, killAck: make(chan struct{})}
	s.mainT = &Task{id: 0, acc: map[string][]accRec{}, vc: VC{1}, started: true, wake: make(chan struct{})}
	s.cur = s.mainT
	s.all = []*Task{s.mainT}
	return s
}

// unfinished: goroutines started by a go statement that have not returned yet (never run, or parked)
func (s *Sched) unfinished() int {
	n := 0
	for _, t := range s.all {
		if t != s.mainT && !t.finished {
			n++
		}
	}
	return n
}

// runnable: every goroutine other than t that could run now: not started yet, or parked with its condition fulfilled
func (s *Sched) runnable(t *Task) []*Task {
	var r []*Task
	for _, o := range s.all {
		if o == t || o.finished {
			continue
		}
		if !o.started || (o.cond != nil && o.cond()) {
			r = append(r, o)
		}
	}
	return r
}

func (t *Task) tick() { // after a release: later accesses are not covered by it
	for len(t.vc) <= t.id {
		t.vc = append(t.vc, 0)
	}
	t.vc[t.id]++
	t.snap = nil
}
func (t *Task) acquire(v VC) {
	if len(v) > 0 {
		t.vc = joinVC(t.vc, v)
		t.snap = nil
	}
}
func (t *Task) release() VC { v := t.vc.clone(); t.tick(); return v }

func (m *M) syncAcquire(key string) {
	if s := m.sched; s != nil {
		s.cur.acquire(s.syncVC[key])
	}
}
func (m *M) syncRelease(key string) {
	if s := m.sched; s != nil {
		s.syncVC[key] = joinVC(s.syncVC[key].clone(), s.cur.release())
	}
}

func locKey(p Ptr) string { return fmt.Sprintf("%s#%d%v", p.obj.name, p.obj.id, p.path) }

func (m *M) record(p Ptr, write, atomic bool) {
	s := m.sched
	if s == nil || p.obj == nil || !m.tracking || p.obj.ghost || (s.cur == s.mainT && s.joined) {
		return
	}
	t := s.cur
	if t.snap == nil {
		t.snap = t.vc.clone()
	}
	k := locKey(p)
	ls := t.lockset()
	for _, r := range t.acc[k] {
		if r.write == write && r.atomic == atomic && r.locks == ls && &r.vc[0] == &t.snap[0] {
			return
		}
	}
	t.acc[k] = append(t.acc[k], accRec{vc: t.snap, locks: ls, write: write, atomic: atomic})
}

func (m *M) recordAccess(p Ptr, write bool) { m.record(p, write, false) }

// recordAtomic: footprint of a sync/atomic operation; it also synchronises (a store releases, every operation acquires)
func (m *M) recordAtomic(p Ptr, write bool) {
	if m.sched == nil || p.obj == nil {
		return
	}
	key := "atomic:" + locKey(p)
	m.syncAcquire(key)
	m.record(p, write, true)
	if write {
		m.syncRelease(key)
	}
}

// lockset: the mutexes the task holds right now, "X<key>" exclusively or "S<key>" shared, sorted, ';'-separated.
func (t *Task) lockset() string {
	if len(t.held) == 0 {
		return ""
	}
	var ks []string
	for k, n := range t.held {
		if n > 0 {
			ks = append(ks, k)
		}
	}
	sort.Strings(ks)
	return strings.Join(ks, ";")
}

func (m *M) lockOp(p Ptr, shared bool, delta int) {
	s := m.sched
	if s == nil || p.obj == nil {
		return
	}
	t := s.cur
	if t.held == nil {
		t.held = map[string]int{}
	}
	k := "X"
	if shared {
		k = "S"
	}
	id := fmt.Sprintf("%d%v", p.obj.id, p.path)
	if delta > 0 {
		// a goroutine that parked while holding the mutex makes this one wait
		m.block(func() bool {
			for _, o := range s.all {
				if o != t && (o.held["X"+id] > 0 || (!shared && o.held["S"+id] > 0)) {
					return false
				}
			}
			return true
		}, "mutex held by a goroutine that cannot proceed")
		m.syncAcquire("mutex:" + id)
	} else {
		m.syncRelease("mutex:" + id)
	}
	k += id
	t.held[k] += delta
	if t.held[k] < 0 {
		panic(goPanic{msg: "sync: unlock of unlocked mutex"})
	}
}

// protected: do two accesses made under these locksets exclude each other (a common mutex, not both shared)?
func protected(la, lb string) bool {
	if la == "" || lb == "" {
		return false
	}
	hb := map[string]bool{}
	for _, k := range strings.Split(lb, ";") {
		hb[k] = true
	}
	for _, k := range strings.Split(la, ";") {
		key := k[1:]
		if k[0] == 'X' && (hb["X"+key] || hb["S"+key]) {
			return true
		}
		if k[0] == 'S' && hb["X"+key] {
			return true
		}
	}
	return false
}

func splitAccess(k string) (loc, locks string) {
	i := strings.IndexByte(k, 0)
	return k[:i], k[i+1:]
}

func (s *Sched) wg(p Ptr) *WG {
	w, ok := s.wgs[p.obj]
	if !ok {
		w = &WG{}
		s.wgs[p.obj] = w
	}
	return w
}

func (m *M) spawn(fn Closure, args []Value) {
	if m.merging > 0 {
		panic(mergeAbort{"go statement"})
	}
	s := m.sched
	if !m.tracking {
		m.tracking = true
		s.joined = false
		s.mainT.acc = map[string][]accRec{}
	}
	t := &Task{id: len(s.all), fn: fn, args: args, acc: map[string][]accRec{}, parent: s.cur, wake: make(chan struct{})}
	// what the spawner did before the go statement happens before everything the new goroutine does
	t.vc = s.cur.release()
	for len(t.vc) <= t.id {
		t.vc = append(t.vc, 0)
	}
	t.vc[t.id] = 1
	s.all = append(s.all, t)
	s.joined = false
}

// block: the current goroutine cannot proceed until cond holds. Another goroutine that can run is chosen (a scheduling
// decision) and gets the baton; this one parks. No goroutine able to run = deadlock.
func (m *M) block(cond func() bool, what string) {
	s := m.sched
	t := s.cur
	for !cond() {
		if m.merging > 0 {
			panic(mergeAbort{"blocking operation"})
		}
		c := s.runnable(t)
		if len(c) == 0 {
			panic(pathEnd{"DEADLOCK: " + what})
		}
		next := c[m.decide(len(c), "schedule")]
		t.cond, t.what = cond, what
		m.switchTo(next)
		t.cond = nil
	}
}

func (m *M) switchTo(next *Task) {
	s := m.sched
	t := s.cur
	t.sDefer, t.sDepth, t.sStack = m.deferStack, m.depth, append([]*ssa.Function(nil), m.stack...)
	m.activate(next)
	<-t.wake
	if s.killing {
		panic(taskKill{})
	}
	if t == s.mainT && s.taskPanic != nil {
		p := s.taskPanic
		s.taskPanic = nil
		panic(p)
	}
}

// activate hands the baton to next; the caller parks or exits right afterwards.
func (m *M) activate(next *Task) {
	s := m.sched
	s.cur = next
	m.deferStack, m.depth, m.stack = next.sDefer, next.sDepth, append(m.stack[:0], next.sStack...)
	if !next.started {
		next.started = true
		go m.taskMain(next)
	} else {
		next.wake <- struct{}{}
	}
}

// taskMain: body of one goroutine of the program under test. A Go panic escaping it kills the process; any other way
// in which the path ends here (violation, engine error, budget) is handed to the main goroutine, which re-raises it.
func (m *M) taskMain(t *Task) {
	s := m.sched
	defer func() {
		r := recover()
		if s.killing {
			s.killAck <- struct{}{}
			return
		}
		t.finished, t.done = true, true
		deliver := func(r interface{}) {
			if gp, ok := r.(goPanic); ok {
				r = pathEnd{"PROCESS-ABORT: panic escaped a goroutine: " + gp.msg + " @" + gp.pos}
			}
			s.taskPanic = r
			m.activate(s.mainT)
		}
		if r != nil {
			deliver(r)
			return
		}
		defer func() {
			if r2 := recover(); r2 != nil {
				deliver(r2)
			}
		}()
		c := s.runnable(t)
		if len(c) == 0 {
			why := "every goroutine is blocked"
			for _, o := range s.all {
				if !o.finished && o.cond != nil {
					why = o.what
					break
				}
			}
			panic(pathEnd{"DEADLOCK: " + why})
		}
		m.activate(c[m.decide(len(c), "schedule")])
	}()
	m.callImpl(t.fn.fn, t.args, t.fn.fv)
}

// killTasks: the path is over; unwind every parked goroutine.
func (m *M) killTasks() {
	s := m.sched
	if s == nil {
		return
	}
	s.killing = true
	for _, t := range s.all {
		if t != s.mainT && t.started && !t.finished {
			m.deferStack, m.depth, m.stack = t.sDefer, t.sDepth, append(m.stack[:0], t.sStack...)
			t.wake <- struct{}{}
			<-s.killAck
			t.finished = true
		}
	}
	s.killing = false
	s.cur = s.mainT
}

func (m *M) wait(w *WG) {
	s := m.sched
	m.block(func() bool { return w.n <= 0 }, "WaitGroup.Wait with counter > 0 and no runnable goroutine")
	if w.n < 0 {
		panic(goPanic{msg: "sync: negative WaitGroup counter"})
	}
	s.cur.acquire(w.vc)
	if s.cur == s.mainT && s.unfinished() == 0 {
		s.joined = true
	}
}

// happensBefore: every access of record a (by task ta) precedes every access of record b
func happensBefore(a accRec, ta *Task, b accRec) bool { return a.vc.at(ta.id) <= b.vc.at(ta.id) }

func (m *M) checkRaces() []string {
	var out []string
	seen := map[string]bool{}
	s := m.sched
	for i, a := range s.all {
		for j, b := range s.all {
			if i >= j {
				continue
			}
			for k, ras := range a.acc {
				rbs := b.acc[k]
				for _, ra := range ras {
					for _, rb := range rbs {
						if !ra.write && !rb.write {
							continue
						}
						if ra.atomic && rb.atomic {
							continue
						}
						if protected(ra.locks, rb.locks) || happensBefore(ra, a, rb) || happensBefore(rb, b, ra) {
							continue
						}
						d := fmt.Sprintf("goroutine%d/goroutine%d on %s", a.id, b.id, k)
						if !seen[d] {
							seen[d] = true
							out = append(out, d)
						}
					}
				}
			}
		}
	}
	sort.Strings(out)
	return out
}

// ---- instructions beyond the core set
func (f *frame) extra(in ssa.Instruction) bool {
	m := f.m
	switch x := in.(type) {
	case *ssa.MakeMap:
		f.env[x] = Ptr{obj: m.newObj(&MapObj{})}
	case *ssa.MapUpdate:
		mpp := f.get(x.Map).(Ptr)
		if mpp.obj == nil {
			panic(goPanic{msg: "assignment to entry in nil map", pos: m.pos(x.Pos())})
		}
		if m.merging > 0 && (mpp.obj.glob || mpp.obj.id < m.mergeBorn) {
			panic(mergeAbort{"map update"})
		}
		mo := mpp.obj.v.(*MapObj)
		k, v := f.get(x.Key), f.get(x.Value)
		if i := m.mapFind(mo, k); i >= 0 {
			mo.vals[i] = copyVal(v)
		} else {
			mo.keys, mo.vals = append(mo.keys, copyVal(m.force(k))), append(mo.vals, copyVal(v))
		}
	case *ssa.Lookup:
		if s, ok := m.force(f.get(x.X)).(Str); ok {
			f.env[x] = m.strIndex(s, f.get(x.Index), x.Pos())
			return true
		}
		mp := f.get(x.X).(Ptr)
		var res Value
		found := false
		if mp.obj != nil {
			mo := mp.obj.v.(*MapObj)
			if i := m.mapFind(mo, f.get(x.Index)); i >= 0 {
				res, found = copyVal(mo.vals[i]), true
			}
		}
		if !found {
			res = zero(x.X.Type().Underlying().(*types.Map).Elem())
		}
		if x.CommaOk {
			f.env[x] = Tuple{res, cBool(found)}
		} else {
			f.env[x] = res
		}
	case *ssa.Range:
		switch c := m.force(f.get(x.X)).(type) {
		case Str:
			cc := c
			f.env[x] = &MapIter{str: &cc}
		case Ptr:
			it := &MapIter{}
			if c.obj != nil {
				mo := c.obj.v.(*MapObj)
				m.materialiseAll(mo)
				it.keys = append([]Value{}, mo.keys...)
				it.vals = append([]Value{}, mo.vals...)
				if m.P.mapOrders && len(it.keys) >= 2 {
					// iteration order is a shape choice: insertion order or its reverse
					if m.decide(2, "map order") == 1 {
						for i, j := 0, len(it.keys)-1; i < j; i, j = i+1, j-1 {
							it.keys[i], it.keys[j] = it.keys[j], it.keys[i]
							it.vals[i], it.vals[j] = it.vals[j], it.vals[i]
						}
					}
				}
			}
			f.env[x] = it
		default:
			panic(engineErr(fmt.Sprintf("range over %T", c)))
		}
	case *ssa.Next:
		it := f.get(x.Iter).(*MapIter)
		if x.IsString {
			if !it.str.conc {
				panic(engineErr("range over symbolic string at " + m.pos(x.Pos())))
			}
			s := it.str.s
			if it.i >= len(s) {
				f.env[x] = Tuple{cBool(false), cI(0), cInt(32, true, 0)}
			} else {
				var r rune
				var sz int
				for j, rr := range s[it.i:] {
					if j == 0 {
						r = rr
						sz = len(string(rr))
						if rr == 0xFFFD {
							sz = 1
						}
					}
					break
				}
				f.env[x] = Tuple{cBool(true), cI(it.i), cInt(32, true, uint64(r))}
				it.i += sz
			}
			return true
		}
		mt := x.Iter.(*ssa.Range).X.Type().Underlying().(*types.Map)
		if it.i >= len(it.keys) {
			f.env[x] = Tuple{cBool(false), zero(mt.Key()), zero(mt.Elem())}
		} else {
			f.env[x] = Tuple{cBool(true), it.keys[it.i], it.vals[it.i]}
			it.i++
		}
	case *ssa.Defer:
		d := deferred{}
		for _, a := range x.Call.Args {
			d.args = append(d.args, f.get(a))
		}
		if b, ok := x.Call.Value.(*ssa.Builtin); ok {
			d.bi = b.Name()
		} else if x.Call.IsInvoke() {
			recv := m.resolveIface(f.get(x.Call.Value).(Iface))
			if recv.t == nil {
				panic(goPanic{msg: "invalid memory address or nil pointer dereference (defer on nil interface)", pos: m.pos(x.Pos())})
			}
			d.fn = Closure{fn: m.P.lookupMethod(recv.t, x.Call.Method)}
			d.args = append([]Value{recv.v}, d.args...)
		} else {
			d.fn = f.get(x.Call.Value)
		}
		f.defers = append(f.defers, d)
	case *ssa.RunDefers:
		f.runDefers()
	case *ssa.Go:
		var args []Value
		var cl Closure
		if x.Call.IsInvoke() {
			recv := m.resolveIface(f.get(x.Call.Value).(Iface))
			cl = Closure{fn: m.P.lookupMethod(recv.t, x.Call.Method)}
			args = append(args, recv.v)
		} else {
			cl = f.get(x.Call.Value).(Closure)
		}
		for _, a := range x.Call.Args {
			args = append(args, f.get(a))
		}
		m.spawn(cl, args)
	case *ssa.MakeChan:
		f.env[x] = Ptr{obj: m.newObj(&Chan{cap: m.concIndex(f.get(x.Size), 1<<20, "chan size")})}
	case *ssa.Send:
		cp := f.get(x.Chan).(Ptr)
		if cp.obj == nil {
			m.block(func() bool { return false }, "send on nil channel blocks forever")
		}
		c := cp.obj.v.(*Chan)
		m.block(func() bool { return c.sendReady() }, "send on full channel blocks forever @"+m.pos(x.Pos()))
		if c.closed {
			panic(goPanic{msg: "send on closed channel", pos: m.pos(x.Pos())})
		}
		c.push(m, f.get(x.X))
	case *ssa.Select:
		f.env[x] = f.doSelect(x)
	default:
		return false
	}
	return true
}

// sendReady: a send can complete now (or must panic because the channel is closed). An unbuffered channel takes a value
// only while a receiver is parked on it (the sender then runs on before the receiver picks the value up: weaker than a
// rendezvous, the same happens-before edge).
func (c *Chan) sendReady() bool {
	if c.closed {
		return true
	}
	if c.cap == 0 {
		return c.waitingRecv > 0 && len(c.buf) == 0
	}
	return len(c.buf) < c.cap
}
func (c *Chan) recvReady() bool { return len(c.buf) > 0 || c.closed }

func (c *Chan) push(m *M, v Value) {
	c.buf = append(c.buf, v)
	c.bufVC = append(c.bufVC, m.sched.cur.release())
}
func (c *Chan) pop(m *M) Value {
	v := c.buf[0]
	m.sched.cur.acquire(c.bufVC[0])
	c.buf, c.bufVC = c.buf[1:], c.bufVC[1:]
	return v
}

func (f *frame) recv(x *ssa.UnOp) Value {
	m := f.m
	cp := f.get(x.X).(Ptr)
	et := x.X.Type().Underlying().(*types.Chan).Elem()
	if cp.obj == nil {
		m.block(func() bool { return false }, "receive from nil channel blocks forever")
	}
	c := cp.obj.v.(*Chan)
	if !c.recvReady() {
		c.waitingRecv++
		func() {
			defer func() { c.waitingRecv-- }()
			m.block(c.recvReady, "receive on empty channel with no runnable goroutine @"+m.pos(x.Pos()))
		}()
	}
	var v Value
	ok := false
	if len(c.buf) > 0 {
		v, ok = c.pop(m), true
	} else {
		v = zero(et)
		m.sched.cur.acquire(c.closeVC)
	}
	if x.CommaOk {
		return Tuple{v, cBool(ok)}
	}
	return v
}

func (f *frame) doSelect(x *ssa.Select) Value {
	m := f.m
	// result tuple: (index int, recvOk bool, r_0 T_0, ... r_n-1 T_n-1) for receive states
	var recvTypes []types.Type
	for _, st := range x.States {
		if st.Dir == types.RecvOnly {
			recvTypes = append(recvTypes, st.Chan.Type().Underlying().(*types.Chan).Elem())
		}
	}
	mk := func(idx int, ok bool, which int, v Value) Tuple {
		t := Tuple{cI(idx), cBool(ok)}
		for i, rt := range recvTypes {
			if i == which {
				t = append(t, v)
			} else {
				t = append(t, zero(rt))
			}
		}
		return t
	}
	chans := make([]*Chan, len(x.States))
	for i, st := range x.States {
		if cp := f.get(st.Chan).(Ptr); cp.obj != nil {
			chans[i] = cp.obj.v.(*Chan)
		}
	}
	readyCases := func() []int {
		var ready []int
		for i, st := range x.States {
			c := chans[i]
			if c == nil {
				continue
			}
			if st.Dir == types.RecvOnly && c.recvReady() {
				ready = append(ready, i)
			}
			if st.Dir == types.SendOnly && c.sendReady() {
				ready = append(ready, i)
			}
		}
		return ready
	}
	ready := readyCases()
	if len(ready) == 0 {
		if !x.Blocking {
			return mk(-1, false, -1, nil)
		}
		for i, st := range x.States {
			if st.Dir == types.RecvOnly && chans[i] != nil {
				chans[i].waitingRecv++
			}
		}
		func() {
			defer func() {
				for i, st := range x.States {
					if st.Dir == types.RecvOnly && chans[i] != nil {
						chans[i].waitingRecv--
					}
				}
			}()
			m.block(func() bool { return len(readyCases()) > 0 }, "blocking select with no ready case @"+m.pos(x.Pos()))
		}()
		ready = readyCases()
	}
	pick := ready[m.decide(len(ready), "select")]
	st := x.States[pick]
	c := chans[pick]
	if st.Dir == types.SendOnly {
		if c.closed {
			panic(goPanic{msg: "send on closed channel"})
		}
		c.push(m, f.get(st.Send))
		return mk(pick, false, -1, nil)
	}
	which := 0
	for i := 0; i < pick; i++ {
		if x.States[i].Dir == types.RecvOnly {
			which++
		}
	}
	if len(c.buf) > 0 {
		return mk(pick, true, which, c.pop(m))
	}
	m.sched.cur.acquire(c.closeVC)
	return mk(pick, false, which, zero(recvTypes[which]))
}

func (f *frame) runDefers() {
	m := f.m
	for len(f.defers) > 0 {
		d := f.defers[len(f.defers)-1]
		f.defers = f.defers[:len(f.defers)-1]
		m.deferStack = append(m.deferStack, f)
		func() {
			defer func() { m.deferStack = m.deferStack[:len(m.deferStack)-1] }()
			defer func() {
				// a panic raised by a deferred call replaces the current one
				if r := recover(); r != nil {
					if gp, ok := r.(goPanic); ok {
						f.panicking = &gp
						return
					}
					panic(r)
				}
			}()
			switch {
			case d.bi == "close":
				c := d.args[0].(Ptr).obj.v.(*Chan)
				if c.closed {
					panic(goPanic{msg: "close of closed channel"})
				}
				c.closed = true
				c.closeVC = m.sched.cur.release()
			case d.bi == "recover":
				m.doRecover()
			case d.bi != "":
				panic(engineErr("deferred builtin " + d.bi))
			default:
				cl := d.fn.(Closure)
				if cl.fn == nil {
					panic(goPanic{msg: "invalid memory address or nil pointer dereference (deferred nil func)"})
				}
				m.callImpl(cl.fn, d.args, cl.fv)
			}
		}()
	}
}

func (m *M) doRecover() Value {
	if len(m.deferStack) == 0 {
		return Iface{}
	}
	fr := m.deferStack[len(m.deferStack)-1]
	if fr.panicking == nil {
		return Iface{}
	}
	p := fr.panicking
	fr.panicking = nil
	if p.val != nil {
		return p.val
	}
	return m.P.runtimeErrorValue(m, p.msg)
}

var _ = token.NoPos
