// gosymex: path-based symbolic executor over go/ssa.
// values.go: the mixed concrete/symbolic value domain (DESIGN.md 2.2).
package main

import (
	"fmt"
	"go/types"
	"hash/fnv"
	"strings"

	"golang.org/x/tools/go/ssa"
)

type Value interface{}

// Int is an integer of width w; concrete (conc, v) or a bit-vector term t.
type Int struct {
	w    int
	sgn  bool
	conc bool
	v    uint64
	t    string
}

type Bool struct {
	conc bool
	v    bool
	t    string
}

// Str: concrete string, atom (symbolic length + equality label), or array form (concrete length, per-byte Ints).
type Str struct {
	conc       bool
	s          string
	lenT, labT string
	arr        []Int // array form when !conc && arr != nil
	isArr      bool
}

// Float is opaque: concrete value or a label term (64-bit) compared by equality only.
type Float struct {
	conc bool
	f    float64
	t    string
}

type Obj struct {
	v     Value
	id    int
	ghost bool   // harness-owned state, excluded from footprints
	name  string // for diagnostics
	glob  bool   // package-level variable
}

type Ptr struct {
	obj  *Obj
	path []int
}

type Agg []Value // struct or array (copy semantics)

type Slice struct {
	arr         *Obj // holds Agg
	off, ln, cp int
	isNil       bool
	abs         bool // atom form (byte slices only)
	lenT, labT  string
}

type Iface struct {
	t types.Type
	v Value
	u *UndIface // undetermined dynamic type (lazily refined)
}

// UndIface is a havoced interface value whose dynamic type has not been looked at yet.
type UndIface struct {
	name     string
	cands    []types.Type // admissible dynamic types (nil entry = nil interface)
	resolved bool
	val      Iface
}

type Closure struct {
	fn *ssa.Function
	fv []Value
}

type Tuple []Value

type MapObj struct {
	keys, vals []Value
	// lazily populated map (rt.LazyMap): presence and value of a universe key are decided when first looked up
	lazyGen  *Closure
	universe []Value
	asked    []bool
}

type MapIter struct {
	keys, vals []Value
	i          int
	str        *Str // range over string
}

type Chan struct {
	buf    []Value
	bufVC  []VC // clock of the sender per buffered value: a receive acquires it
	cap    int
	closed bool
	closeVC     VC
	waitingRecv int // goroutines parked in a receive (or a select with a receive case) on this channel
}

// Lazy is a not-yet-materialised havoced value (DESIGN.md 2.2, lazy initialisation).
type Lazy struct {
	t    types.Type
	name string
}

func mask(w int, v uint64) uint64 {
	if w >= 64 {
		return v
	}
	return v & ((1 << uint(w)) - 1)
}
func cInt(w int, sgn bool, v uint64) Int { return Int{w: w, sgn: sgn, conc: true, v: mask(w, v)} }
func cI(v int) Int                      { return cInt(64, true, uint64(int64(v))) }
func (i Int) term() string {
	if i.conc {
		return fmt.Sprintf("(_ bv%d %d)", i.v, i.w)
	}
	return i.t
}
// signed: the numeric value of a concrete integer as int64 (sign-extended for signed types, zero-extended otherwise)
func (i Int) signed() int64 {
	if i.w >= 64 || !i.sgn {
		return int64(i.v)
	}
	sh := uint(64 - i.w)
	return int64(i.v<<sh) >> sh
}
func cBool(b bool) Bool { return Bool{conc: true, v: b} }
func (b Bool) term() string {
	if b.conc {
		if b.v {
			return "true"
		}
		return "false"
	}
	return b.t
}
func cStr(s string) Str { return Str{conc: true, s: s} }

func intInfo(t types.Type) (w int, sgn bool, ok bool) {
	b, isB := t.Underlying().(*types.Basic)
	if !isB {
		return 0, false, false
	}
	switch b.Kind() {
	case types.Int, types.Int64, types.UntypedInt, types.UntypedRune:
		return 64, true, true
	case types.Int32:
		return 32, true, true
	case types.Int16:
		return 16, true, true
	case types.Int8:
		return 8, true, true
	case types.Uint, types.Uint64, types.Uintptr:
		return 64, false, true
	case types.Uint32:
		return 32, false, true
	case types.Uint16:
		return 16, false, true
	case types.Uint8:
		return 8, false, true
	}
	return 0, false, false
}

func isFloat(t types.Type) bool {
	b, ok := t.Underlying().(*types.Basic)
	return ok && b.Info()&types.IsFloat != 0
}
func isString(t types.Type) bool {
	b, ok := t.Underlying().(*types.Basic)
	return ok && b.Info()&types.IsString != 0
}
func isByteSlice(t types.Type) bool {
	s, ok := t.Underlying().(*types.Slice)
	if !ok {
		return false
	}
	b, ok := s.Elem().Underlying().(*types.Basic)
	return ok && b.Kind() == types.Uint8
}

func zero(t types.Type) Value {
	switch u := t.Underlying().(type) {
	case *types.Basic:
		if w, s, ok := intInfo(t); ok {
			return cInt(w, s, 0)
		}
		switch {
		case u.Info()&types.IsBoolean != 0:
			return cBool(false)
		case u.Info()&types.IsString != 0:
			return Str{conc: true}
		case u.Info()&types.IsFloat != 0:
			return Float{conc: true}
		case u.Kind() == types.UnsafePointer, u.Kind() == types.UntypedNil:
			return Ptr{}
		}
		panic(engineErr("zero: basic " + u.String()))
	case *types.Struct:
		a := make(Agg, u.NumFields())
		for i := range a {
			a[i] = zero(u.Field(i).Type())
		}
		return a
	case *types.Array:
		a := make(Agg, u.Len())
		for i := range a {
			a[i] = zero(u.Elem())
		}
		return a
	case *types.Pointer:
		return Ptr{}
	case *types.Slice:
		return Slice{isNil: true}
	case *types.Interface:
		return Iface{}
	case *types.Signature:
		return Closure{}
	case *types.Map, *types.Chan:
		return Ptr{}
	case *types.Tuple:
		tp := make(Tuple, u.Len())
		for i := range tp {
			tp[i] = zero(u.At(i).Type())
		}
		return tp
	case *types.TypeParam:
		panic(engineErr("zero: uninstantiated type parameter " + t.String()))
	}
	panic(engineErr("zero: " + t.String()))
}

func copyVal(v Value) Value {
	if a, ok := v.(Agg); ok {
		c := make(Agg, len(a))
		for i := range a {
			c[i] = copyVal(a[i])
		}
		return c
	}
	return v
}

type goPanic struct {
	msg string
	val Value // value passed to panic(), nil for run-time errors
	pos string
}

// engineErr: the machinery cannot go on (unsupported construct); exit 2, never a violation.
type engineErr string

// pathEnd: the current path stops (infeasible assumption, deadlock, process abort, merge abort).
type pathEnd struct{ why string }

func labelOf(s string) uint64 {
	h := fnv.New64a()
	h.Write([]byte(s))
	v := h.Sum64()
	if v == 0 {
		v = 1
	}
	return v
}

func strTerms(a Str) (string, string) {
	if !a.conc {
		if a.isArr {
			panic(engineErr("array-form string used as atom"))
		}
		return a.lenT, a.labT
	}
	return fmt.Sprintf("(_ bv%d 64)", len(a.s)), fmt.Sprintf("(_ bv%d 64)", labelOf(a.s))
}

func bAnd(a, b Bool) Bool {
	if a.conc {
		if !a.v {
			return a
		}
		return b
	}
	if b.conc {
		if !b.v {
			return b
		}
		return a
	}
	return Bool{t: "(and " + a.t + " " + b.t + ")"}
}
func bOr(a, b Bool) Bool {
	if a.conc {
		if a.v {
			return a
		}
		return b
	}
	if b.conc {
		if b.v {
			return b
		}
		return a
	}
	return Bool{t: "(or " + a.t + " " + b.t + ")"}
}
func bNot(a Bool) Bool {
	if a.conc {
		return cBool(!a.v)
	}
	if strings.HasPrefix(a.t, "(not ") && balancedTail(a.t) {
		return Bool{t: a.t[5 : len(a.t)-1]}
	}
	return Bool{t: "(not " + a.t + ")"}
}

// balancedTail reports whether "(not X)" consists of exactly one X (so stripping is safe).
func balancedTail(s string) bool {
	depth := 0
	for i := 5; i < len(s)-1; i++ {
		switch s[i] {
		case '(':
			depth++
		case ')':
			depth--
			if depth < 0 {
				return false
			}
		case ' ':
			if depth == 0 {
				return false
			}
		}
	}
	return depth == 0
}

func iteInt(c Bool, a, b Int) Int {
	if c.conc {
		if c.v {
			return a
		}
		return b
	}
	if a.conc && b.conc && a.v == b.v {
		return a
	}
	if !a.conc && !b.conc && a.t == b.t {
		return a
	}
	return Int{w: a.w, sgn: a.sgn, t: fmt.Sprintf("(ite %s %s %s)", c.t, a.term(), b.term())}
}
func iteBool(c, a, b Bool) Bool {
	if c.conc {
		if c.v {
			return a
		}
		return b
	}
	if a.conc && b.conc && a.v == b.v {
		return a
	}
	return Bool{t: fmt.Sprintf("(ite %s %s %s)", c.t, a.term(), b.term())}
}

// iteVal merges two values of the same shape under condition c; ok=false if they cannot be merged into terms.
func iteVal(c Bool, a, b Value) (Value, bool) {
	if c.conc {
		if c.v {
			return a, true
		}
		return b, true
	}
	switch x := a.(type) {
	case nil:
		if b == nil {
			return nil, true
		}
	case Int:
		if y, ok := b.(Int); ok && x.w == y.w {
			return iteInt(c, x, y), true
		}
	case Bool:
		if y, ok := b.(Bool); ok {
			return iteBool(c, x, y), true
		}
	case Str:
		y, ok := b.(Str)
		if !ok {
			return nil, false
		}
		if x.conc && y.conc && x.s == y.s {
			return x, true
		}
		if x.isArr || y.isArr {
			return nil, false
		}
		xl, xb := strTerms(x)
		yl, yb := strTerms(y)
		return Str{lenT: fmt.Sprintf("(ite %s %s %s)", c.t, xl, yl), labT: fmt.Sprintf("(ite %s %s %s)", c.t, xb, yb)}, true
	case Agg:
		y, ok := b.(Agg)
		if !ok || len(x) != len(y) {
			return nil, false
		}
		r := make(Agg, len(x))
		for i := range x {
			m, ok := iteVal(c, x[i], y[i])
			if !ok {
				return nil, false
			}
			r[i] = m
		}
		return r, true
	case Tuple:
		y, ok := b.(Tuple)
		if !ok || len(x) != len(y) {
			return nil, false
		}
		r := make(Tuple, len(x))
		for i := range x {
			m, ok := iteVal(c, x[i], y[i])
			if !ok {
				return nil, false
			}
			r[i] = m
		}
		return r, true
	case Ptr:
		if y, ok := b.(Ptr); ok && ptrSame(x, y) {
			return x, true
		}
	case Iface:
		y, ok := b.(Iface)
		if !ok || x.u != nil || y.u != nil {
			return nil, false
		}
		if x.t == nil && y.t == nil {
			return x, true
		}
		if x.t != nil && y.t != nil && types.Identical(x.t, y.t) {
			m, ok := iteVal(c, x.v, y.v)
			if ok {
				return Iface{t: x.t, v: m}, true
			}
		}
	case Slice:
		y, ok := b.(Slice)
		if !ok {
			return nil, false
		}
		if x.isNil && y.isNil {
			return x, true
		}
		if x.abs && y.abs {
			return Slice{abs: true, lenT: fmt.Sprintf("(ite %s %s %s)", c.t, x.lenT, y.lenT), labT: fmt.Sprintf("(ite %s %s %s)", c.t, x.labT, y.labT)}, true
		}
		if !x.abs && !y.abs && x.arr == y.arr && x.off == y.off && x.ln == y.ln && x.cp == y.cp {
			return x, true
		}
	case Closure:
		if y, ok := b.(Closure); ok && x.fn == y.fn && len(x.fv) == 0 && len(y.fv) == 0 {
			return x, true
		}
	case Float:
		if y, ok := b.(Float); ok && x.conc && y.conc && x.f == y.f {
			return x, true
		}
	}
	return nil, false
}

func ptrSame(x, y Ptr) bool {
	if x.obj != y.obj || len(x.path) != len(y.path) {
		return false
	}
	for i := range x.path {
		if x.path[i] != y.path[i] {
			return false
		}
	}
	return true
}

func describe(v Value) string {
	switch x := v.(type) {
	case Int:
		if x.conc {
			if x.sgn {
				return fmt.Sprint(x.signed())
			}
			return fmt.Sprint(x.v)
		}
		return "sym"
	case Bool:
		if x.conc {
			return fmt.Sprint(x.v)
		}
		return "symbool"
	case Str:
		if x.conc {
			return fmt.Sprintf("%q", x.s)
		}
		return "atom"
	case Iface:
		if x.t == nil {
			return "nil"
		}
		return x.t.String() + ":" + describe(x.v)
	case Ptr:
		if x.obj == nil {
			return "nilptr"
		}
		return fmt.Sprintf("&obj%d%v", x.obj.id, x.path)
	}
	return fmt.Sprintf("%T", v)
}
