// explore.go: per-worker machine state, decisions, path conditions, assertions (DESIGN.md 2.4, 2.7).
package main

import (
	"fmt"
	"os"
	"sort"
	"strings"
	"time"

	"golang.org/x/tools/go/ssa"
)

type pendingAssert struct {
	c   Bool
	id  string
	pos string
}

type dec struct {
	d, n   int
	forced bool
}

// violation: a counterexample for an assertion (or an escaped panic / deadlock / race) on one path.
type violation struct {
	ID        string            `json:"assertion"`
	Harness   string            `json:"harness"`
	Kind      string            `json:"kind"` // assert | panic | deadlock | abort | race
	Msg       string            `json:"msg"`
	Pos       string            `json:"pos"`
	Decisions []int             `json:"decisions"`
	Forced    []bool            `json:"forced"`
	Model     map[string]string `json:"model"`
	Trace     []string          `json:"trace"`
	KnownID   string            `json:"known_id,omitempty"`
	Replayed  string            `json:"replayed,omitempty"`
}

// M: one worker's machine. All mutable interpreter state lives here; the SSA program is shared read-only.
type M struct {
	id  int
	P   *Program
	H   *Harness
	sol *Solver

	// exploration state for the current path
	prefix    []dec
	taken     []dec
	liveDec   int // decisions < liveDec are already on the solver stack; -1: nothing retained
	hasPrev   bool
	pushed    int // frames pushed for the current path (incl. retained ones passed so far)
	known     map[string]bool
	trail     []string
	symNames  []string
	symSort   map[string]string
	nameCount map[string]int
	trace     []string

	// interpreter state for the current path
	globals    map[*ssa.Global]*Obj
	sched      *Sched
	tracking   bool
	deferStack []*frame
	lazyMemo   map[string]Value
	objCount   int
	steps      int64
	depth      int
	merging    int // >0 while exploring a pure callee for merging
	mergeBorn  int
	pending    []pendingAssert
	stack      []*ssa.Function
	errStack   []string
	mg         *mergeCtx
	seqCounter map[string]int
	replayVals map[string]string // replay mode: pinned model values
	replayTarget       string
	replayDone, replayOK bool

	// accumulators
	st *stats
}

type stats struct {
	paths, steps, decisions          int64
	assertReach                      map[string]int64
	coverReach                       map[string]int64
	funcs                            map[string]int64
	lines                            map[string]map[int]bool
	blocks                           map[*ssa.BasicBlock]bool
	viols                            []*violation
	violSeen                         map[string]int
	inconclusive                     []string
	knownHits                        map[string]string
	maxDepth                         int
	verdictQueries, verdictUnsat     int64
	mergeCalls, mergeAborts          int64
	samples                          []map[string]interface{}
	bounds                           map[string]int
	pathEnds                         map[string]int64
	crossChecked, crossDisagreements int64
	queries, sat, unsat, unknown     int64
	solverDur                        time.Duration
}

func newStats() *stats {
	return &stats{assertReach: map[string]int64{}, coverReach: map[string]int64{}, funcs: map[string]int64{}, lines: map[string]map[int]bool{}, blocks: map[*ssa.BasicBlock]bool{},
		violSeen: map[string]int{}, knownHits: map[string]string{}, bounds: map[string]int{}, pathEnds: map[string]int64{}}
}

func (s *stats) merge(o *stats) {
	s.paths += o.paths
	s.steps += o.steps
	s.decisions += o.decisions
	s.verdictQueries += o.verdictQueries
	s.verdictUnsat += o.verdictUnsat
	s.mergeCalls += o.mergeCalls
	s.mergeAborts += o.mergeAborts
	s.crossChecked += o.crossChecked
	s.crossDisagreements += o.crossDisagreements
	s.queries += o.queries
	s.sat += o.sat
	s.unsat += o.unsat
	s.unknown += o.unknown
	s.solverDur += o.solverDur
	if o.maxDepth > s.maxDepth {
		s.maxDepth = o.maxDepth
	}
	for k, v := range o.assertReach {
		s.assertReach[k] += v
	}
	for k, v := range o.coverReach {
		s.coverReach[k] += v
	}
	for k, v := range o.funcs {
		s.funcs[k] += v
	}
	for k, v := range o.pathEnds {
		s.pathEnds[k] += v
	}
	for b := range o.blocks {
		s.blocks[b] = true
	}
	for f, ls := range o.lines {
		if s.lines[f] == nil {
			s.lines[f] = map[int]bool{}
		}
		for l := range ls {
			s.lines[f][l] = true
		}
	}
	for k, v := range o.bounds {
		s.bounds[k] = v
	}
	for k, v := range o.knownHits {
		s.knownHits[k] = v
	}
	s.viols = append(s.viols, o.viols...)
	s.inconclusive = append(s.inconclusive, o.inconclusive...)
	if len(s.samples) < 6 {
		s.samples = append(s.samples, o.samples...)
	}
}

func (m *M) resetPath(prefix []dec) {
	// align the solver stack with the common prefix of the previous path
	if m.hasPrev {
		i := 0
		for i < len(prefix) && i < len(m.taken) && prefix[i].d == m.taken[i].d {
			i++
		}
		keep := 0
		for _, d := range m.taken[:i] {
			if !d.forced {
				keep++
			}
		}
		m.sol.pop(m.pushed - keep)
		m.liveDec = i
	} else {
		m.liveDec = -1
	}
	m.hasPrev = true
	m.prefix = prefix
	m.taken = nil
	m.pushed = 0
	m.known = map[string]bool{}
	m.trail = m.trail[:0]
	m.symNames = nil
	m.symSort = map[string]string{}
	m.nameCount = map[string]int{}
	m.trace = nil
	m.globals = map[*ssa.Global]*Obj{}
	m.sched = newSched()
	m.tracking = false
	m.deferStack = nil
	m.lazyMemo = map[string]Value{}
	m.objCount = 0
	m.steps = 0
	m.depth = 0
	m.merging = 0
	m.seqCounter = map[string]int{}
	m.stack = m.stack[:0]
	m.errStack = nil
	m.pending = nil
}

func (m *M) suppressed() bool { return m.liveDec >= 0 && len(m.taken) <= m.liveDec }

func (m *M) assume(t string) {
	if len(m.pending) > 0 {
		m.flushAsserts()
	}
	m.trail = append(m.trail, t)
	if m.suppressed() {
		return
	}
	m.sol.assert(t)
}

// recordDecision appends d; for non-forced decisions it manages the solver frame and asserts cond (may be "").
func (m *M) recordDecision(d dec, cond string) {
	if len(m.pending) > 0 {
		m.flushAsserts()
	}
	k := len(m.taken)
	m.taken = append(m.taken, d)
	if d.forced {
		return
	}
	if m.liveDec >= 0 && k < m.liveDec {
		m.pushed++
		if cond != "" {
			m.trail = append(m.trail, cond)
		}
		return
	}
	m.sol.push()
	m.pushed++
	if cond != "" {
		m.trail = append(m.trail, cond)
		m.sol.assert(cond)
	}
}

func (m *M) check(extra string) satResult {
	if m.suppressed() {
		panic(engineErr("solver query inside the replayed prefix region"))
	}
	r := m.sol.checkRes(extra)
	if r == resUnknown {
		r = m.fallbackCheck(extra)
	}
	return r
}

// decide: an n-way shape fork without a condition.
func (m *M) decide(n int, what string) int {
	if n <= 0 {
		panic(engineErr("decide with no alternatives: " + what))
	}
	if n == 1 {
		return 0
	}
	if m.merging > 0 {
		panic(mergeAbort{"shape fork " + what})
	}
	k := len(m.taken)
	d := 0
	if k < len(m.prefix) {
		d = m.prefix[k].d
	}
	m.recordDecision(dec{d: d, n: n}, "")
	return d
}

func (m *M) branch(c Bool) bool {
	if c.conc {
		return c.v
	}
	k := len(m.taken)
	if m.merging == 0 && k < len(m.prefix) {
		d := m.prefix[k]
		val := d.d == 0
		cond := c.t
		if !val {
			cond = "(not " + c.t + ")"
		}
		m.recordDecision(d, cond)
		m.known[c.t] = val
		return val
	}
	if r, ok := m.known[c.t]; ok {
		if m.merging == 0 {
			m.recordDecision(dec{d: b2i(!r), n: 2, forced: true}, "")
		}
		return r
	}
	if m.merging > 0 {
		return m.mergeBranch(c)
	}
	st := m.check(c.t)
	sf := resSat
	if st == resSat {
		sf = m.check("(not " + c.t + ")")
	} else if st == resUnsat {
		// the path is feasible by construction, so the other side is
	}
	if st == resUnknown || sf == resUnknown {
		m.st.inconclusive = append(m.st.inconclusive, "branch query unknown: "+clip(c.t, 200))
		panic(pathEnd{"INCONCLUSIVE"})
	}
	switch {
	case st == resSat && sf == resSat:
		m.recordDecision(dec{d: 0, n: 2}, c.t)
		m.known[c.t] = true
		return true
	case st == resSat:
		m.recordDecision(dec{d: 0, n: 2, forced: true}, "")
		m.known[c.t] = true
		return true
	default:
		m.recordDecision(dec{d: 1, n: 2, forced: true}, "")
		m.known[c.t] = false
		return false
	}
}

func b2i(b bool) int {
	if b {
		return 1
	}
	return 0
}

func (m *M) sym(name, sort string) string {
	m.nameCount[name+sort]++
	n := name
	if c := m.nameCount[name+sort]; c > 1 {
		n = fmt.Sprintf("%s#%d", name, c)
	}
	switch sort {
	case "Bool":
		n += "?"
	case "(_ BitVec 64)":
	default:
		n += ":" + strings.Trim(strings.TrimPrefix(sort, "(_ BitVec "), ")")
	}
	n = "|" + n + "|"
	m.sol.declare(n, sort)
	if _, ok := m.symSort[n]; !ok {
		m.symNames = append(m.symNames, n)
		m.symSort[n] = sort
		if m.replayVals != nil {
			if v, ok := m.replayVals[n]; ok {
				m.assume(fmt.Sprintf("(= %s %s)", n, normModelVal(v)))
			}
		}
	}
	return n
}

func normModelVal(v string) string { return strings.ReplaceAll(strings.ReplaceAll(v, "( ", "("), " )", ")") }

func (m *M) symInt(name string, w int, sgn bool) Int {
	return Int{w: w, sgn: sgn, t: m.sym(name, bvSort(w))}
}
func (m *M) symBool(name string) Bool { return Bool{t: m.sym(name, "Bool")} }

func (m *M) seq(name string) int { m.seqCounter[name]++; return m.seqCounter[name] }

func (m *M) tracef(format string, a ...interface{}) {
	if len(m.trace) < 400 {
		m.trace = append(m.trace, fmt.Sprintf(format, a...))
	}
}

// ---- assertions

func (m *M) decisionsOf() ([]int, []bool) {
	ds := make([]int, len(m.taken))
	fs := make([]bool, len(m.taken))
	for i, d := range m.taken {
		ds[i], fs[i] = d.d, d.forced
	}
	return ds, fs
}

func (m *M) report(kind, id, msg, pos, extra string, knownID string) {
	key := kind + "|" + id
	if kind != "assert" {
		key += "|" + msg
	}
	m.st.violSeen[key]++
	if m.st.violSeen[key] > 2 {
		return
	}
	mod := m.sol.model(extra, m.symNames)
	if mod == nil {
		mod = map[string]string{"<model>": "unavailable"}
	}
	ds, fs := m.decisionsOf()
	v := &violation{ID: id, Harness: m.H.Name, Kind: kind, Msg: msg, Pos: pos, Decisions: ds, Forced: fs, Model: mod, Trace: append([]string{}, m.trace...), KnownID: knownID}
	m.st.viols = append(m.st.viols, v)
}

// assertCond: decide pc ∧ ¬c. knownID/knownCond implement the known-findings exclusion (DESIGN.md 6).
func (m *M) assertCond(c Bool, id string, pos string, knownID string, knownCond Bool) {
	if m.merging > 0 {
		panic(mergeAbort{"assert inside merged callee"})
	}
	if c.conc {
		if m.replayVals != nil {
			// concrete assertions take no slot of the decision vector, so several evaluations of the same id (a loop)
			// can follow the last recorded decision: the violation is confirmed if any of them is false
			if id == m.replayTarget && len(m.taken) >= len(m.prefix) && !c.v {
				m.replayDone, m.replayOK = true, true
			}
			return
		}
		if len(m.taken) < len(m.prefix) {
			return // decided by the path that first executed this region
		}
		m.st.assertReach[id]++
		if !c.v {
			if knownID != "" && knownCond.conc && knownCond.v && m.P.known[knownID] {
				m.st.knownHits[knownID] = id
				return
			}
			m.report("assert", id, "assertion false on this path", pos, "", "")
		}
		return
	}
	// every symbolic assertion occupies one (forced) slot of the decision vector: d=1 means it was violated
	// and the path went on under the assumption that it held.
	if k := len(m.taken); k < len(m.prefix) {
		e := m.prefix[k]
		m.recordDecision(dec{d: e.d, n: 2, forced: true}, "")
		if e.d == 1 {
			m.assume(c.t)
		}
		return
	}
	if m.replayVals != nil {
		m.replayAssert(c, id)
		m.recordDecision(dec{d: 0, n: 2, forced: true}, "")
		return
	}
	m.st.assertReach[id]++
	if knownID == "" || !m.P.known[knownID] {
		// batched: decided together with the other assertions made before the next decision or assumption
		m.pending = append(m.pending, pendingAssert{c, id, pos})
		return
	}
	m.flushAsserts()
	m.decideAssert(c, id, pos, knownID, knownCond)
}

// flushAsserts decides the pending assertions: one query for their conjunction, individual queries only if it fails.
func (m *M) flushAsserts() {
	p := m.pending
	m.pending = nil
	if len(p) == 0 {
		return
	}
	if len(p) > 1 {
		parts := make([]string, len(p))
		for i, a := range p {
			parts[i] = a.c.t
		}
		neg := "(not (and " + strings.Join(parts, " ") + "))"
		m.st.verdictQueries++
		// no fallback and a short time limit for the batch: if it is not decided quickly the assertions are decided one by one
		m.sol.setTimeout(1500)
		r := m.sol.checkRes(neg)
		m.sol.setTimeout(queryTimeoutMs)
		if r == resUnsat {
			m.crossCheck(neg, r)
		}
		if r == resUnsat {
			m.st.verdictUnsat++
			for range p {
				m.taken = append(m.taken, dec{d: 0, n: 2, forced: true})
			}
			return
		}
		m.st.verdictQueries-- // decided individually below
	}
	for _, a := range p {
		m.decideAssert(a.c, a.id, a.pos, "", Bool{})
	}
}

func (m *M) decideAssert(c Bool, id string, pos string, knownID string, knownCond Bool) {
	m.st.verdictQueries++
	neg := "(not " + c.t + ")"
	if knownID != "" && m.P.known[knownID] {
		// listed finding: report only counterexamples outside the listed class
		if m.check("(and "+neg+" "+knownCond.term()+")") == resSat {
			m.st.knownHits[knownID] = id
		}
		neg = "(and " + neg + " (not " + knownCond.term() + "))"
	}
	r := m.check(neg)
	m.crossCheck(neg, r)
	switch r {
	case resUnsat:
		m.st.verdictUnsat++
		m.taken = append(m.taken, dec{d: 0, n: 2, forced: true})
	case resSat:
		m.report("assert", id, "counterexample", pos, neg, "")
		// continue under the assumption that the assertion held, if possible
		if m.check(c.t) != resSat {
			panic(pathEnd{"after-violation"})
		}
		m.taken = append(m.taken, dec{d: 1, n: 2, forced: true})
		m.trail = append(m.trail, c.t)
		m.sol.assert(c.t)
	default:
		m.st.inconclusive = append(m.st.inconclusive, "verdict query unknown for "+id)
		m.taken = append(m.taken, dec{d: 0, n: 2, forced: true})
	}
}

// ---- fallback and cross-check on a second solver (one-shot script from the recorded trail)

func (m *M) script(extra string) string {
	var sb strings.Builder
	sb.WriteString("(set-logic QF_BV)\n")
	names := append([]string{}, m.symNames...)
	sort.Strings(names)
	for _, n := range names {
		fmt.Fprintf(&sb, "(declare-const %s %s)\n", n, m.symSort[n])
	}
	defined := map[string]bool{}
	var defs strings.Builder
	var ensure func(x string)
	ensure = func(x string) {
		for i := 0; i+2 < len(x); i++ {
			if x[i] == '!' && x[i+1] == 't' {
				j := i + 2
				for j < len(x) && (x[j] >= '0' && x[j] <= '9' || x[j] >= 'a' && x[j] <= 'f') {
					j++
				}
				name := x[i:j]
				if j-i == 26 && !defined[name] {
					if nt, ok := namedTerms.Load(name); ok {
						defined[name] = true
						d := nt.(namedTerm)
						ensure(d.body)
						fmt.Fprintf(&defs, "(define-fun %s () %s %s)\n", name, d.sort, d.body)
					}
				}
				i = j
			}
		}
	}
	var body strings.Builder
	for _, t := range m.trail {
		ensure(t)
		fmt.Fprintf(&body, "(assert %s)\n", t)
	}
	if extra != "" {
		ensure(extra)
		fmt.Fprintf(&body, "(assert %s)\n", extra)
	}
	sb.WriteString(defs.String())
	sb.WriteString(body.String())
	sb.WriteString("(check-sat)\n")
	return sb.String()
}

func (m *M) fallbackCheck(extra string) satResult {
	sc := m.script(extra)
	for _, alt := range m.P.altSolvers {
		if r := runScript(alt, sc); r != resUnknown {
			return r
		}
	}
	return resUnknown
}

func (m *M) crossCheck(extra string, got satResult) {
	if len(m.P.altSolvers) == 0 || got == resUnknown {
		return
	}
	// thorough: every verdict query; quick: a seed-chosen 1/32
	if m.P.tier != "thorough" {
		h := labelOf(fmt.Sprint(m.P.seed, len(m.trail), extra))
		if h%32 != 0 {
			return
		}
	}
	sc := m.script(extra)
	for _, alt := range m.P.altSolvers {
		r := runScript(alt, sc)
		if r == resUnknown {
			continue
		}
		m.st.crossChecked++
		if r != got {
			m.st.crossDisagreements++
			m.st.inconclusive = append(m.st.inconclusive, fmt.Sprintf("solver disagreement (%s says %v, primary %v)", alt, r, got))
			if f, err := os.CreateTemp("", "disagree*.smt2"); err == nil {
				f.WriteString(sc)
				f.Close()
			}
		}
	}
}
