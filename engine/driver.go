// driver.go: loading, directives, worker pool, evidence, known findings, replay (DESIGN.md 2.1, 2.8, 4, 6).
package main

import (
	"encoding/json"
	"fmt"
	"go/types"
	"os"
	"os/exec"
	"path/filepath"
	"regexp"
	"sort"
	"strconv"
	"strings"
	"sync"
	"time"

	"golang.org/x/tools/go/packages"
	"golang.org/x/tools/go/ssa"
	"golang.org/x/tools/go/ssa/ssautil"
)

const repoDir = "/repo"
const verifDir = "/verif"
const repoPath = "github.com/notaryproject/notation-core-go"

type Program struct {
	prog          *ssa.Program
	pkgs          map[string]*ssa.Package
	repoPath      string
	rtPath        string
	funcByName    map[string]*ssa.Function
	tier          string
	seed          int64
	known         map[string]bool
	knownEntries  []knownEntry
	altSolvers    []string
	initAllow     map[string]bool
	zeroGlobals   map[string]bool
	setGlobals    map[string]*ssa.Function
	harnessFiles  map[string]bool
	mapOrders     bool
	boundOverride map[string]int
	property      string
	uninitRead    sync.Map
	fileHashes    map[string]string
}

type knownEntry struct {
	kind     string // known | fixed
	property string
	id       string
	match    *regexp.Regexp
	text     string
}

type substrInt struct {
	sub string
	n   int
}
type substrFn struct {
	suffix string
	fn     *ssa.Function
}
type substrList struct {
	sub  string
	list []string
}

type Harness struct {
	Name       string
	fn         *ssa.Function
	file       string
	pkgDir     string
	stubs      map[string]*ssa.Function
	merges     map[string]bool
	havocFuncs map[string]*ssa.Function
	havocField []substrFn
	sliceLens  []substrInt
	terminates []substrInt // //verif:terminates <function substring> <max loop iterations per frame>
	nilables   []string
	nonnil     []string
	oidPools   []substrList
	ifaces     []substrList
	ifaceTypes map[string][]types.Type
	special    sync.Map
	tiers      string
	maxPaths   int64
	P          *Program
}

func (h *Harness) inStubBody(fn *ssa.Function) bool { return false }
func (h *Harness) mergeable(fn *ssa.Function) bool {
	if h.merges[fn.String()] {
		return true
	}
	return false
}
func (h *Harness) terminationBound(fn *ssa.Function) int {
	if len(h.terminates) == 0 {
		return 0
	}
	name := fn.String()
	for _, t := range h.terminates {
		if strings.Contains(name, t.sub) {
			return t.n
		}
	}
	return 0
}

func (h *Harness) sliceBound(name string) int {
	best, bl := 2, -1
	for _, s := range h.sliceLens {
		if strings.Contains(name, s.sub) && len(s.sub) > bl {
			best, bl = s.n, len(s.sub)
		}
	}
	return best
}
func (h *Harness) nilable(name string) bool {
	for _, s := range h.nonnil {
		if strings.Contains(name, s) {
			return false
		}
	}
	for _, s := range h.nilables {
		if s == "*" || strings.Contains(name, s) {
			return true
		}
	}
	return false
}
func (h *Harness) oidPool(name string) []string {
	best := []string{"1.2.3"}
	bl := -1
	for _, p := range h.oidPools {
		if strings.Contains(name, p.sub) && len(p.sub) > bl {
			best, bl = p.list, len(p.sub)
		}
	}
	return best
}
func (h *Harness) ifaceCands(name string, t types.Type) []types.Type {
	bl := -1
	var best []types.Type
	for _, p := range h.ifaces {
		if (strings.Contains(name, p.sub) || types.TypeString(t, nil) == p.sub) && len(p.sub) > bl {
			best, bl = h.ifaceTypes[p.sub], len(p.sub)
		}
	}
	return best
}

func (P *Program) initRuns(pkgPath string) bool {
	return strings.HasPrefix(pkgPath, P.repoPath) || P.initAllow[pkgPath]
}
func (P *Program) isHarnessFile(fn string) bool { return P.harnessFiles[fn] }

func (P *Program) rtType(name string) types.Type {
	pkg := P.pkgs[P.rtPath]
	if pkg == nil {
		panic(engineErr("rt package not loaded"))
	}
	return pkg.Type(name).Type()
}

func (P *Program) uninitGlobal(m *M, g *ssa.Global, et types.Type) Value {
	name := g.String()
	if types.Identical(et, types.Universe.Lookup("error").Type()) {
		// sentinel error of a package whose initialiser is not executed: a distinct opaque error value
		ot := P.rtType("OpaqueError")
		o := m.newObj(Agg{cStr("sentinel:" + name), Slice{isNil: true}})
		o.name = name
		return Iface{t: types.NewPointer(ot), v: Ptr{obj: o}}
	}
	if P.zeroGlobals[name] {
		return zero(et)
	}
	if f, ok := P.setGlobals[name]; ok {
		return m.call(f, nil)
	}
	if _, ok := et.Underlying().(*types.Struct); ok {
		// structs are only ever addressed (e.g. time.utcLoc); their zero value is what a not yet used value looks like
		P.uninitRead.Store(name, true)
		return zero(et)
	}
	panic(engineErr("read of package-level variable " + name + " whose package initialiser is not executed (add //verif:init or //verif:zeroglobal)"))
}

func (P *Program) lookupMethod(t types.Type, method *types.Func) *ssa.Function {
	sel := P.prog.MethodSets.MethodSet(t).Lookup(method.Pkg(), method.Name())
	if sel == nil {
		return nil
	}
	return P.prog.MethodValue(sel)
}
func (P *Program) methodByName(t types.Type, name string) *ssa.Function {
	ms := P.prog.MethodSets.MethodSet(t)
	for i := 0; i < ms.Len(); i++ {
		if ms.At(i).Obj().Name() == name {
			return P.prog.MethodValue(ms.At(i))
		}
	}
	return nil
}
func (P *Program) runtimeErrorValue(m *M, msg string) Value {
	return Iface{t: P.rtType("RuntimePanic"), v: Agg{cStr("runtime error: " + msg)}}
}

// ---- directives

type fileDirectives struct {
	path     string
	pkgDir   string
	harness  []string
	hopts    map[string]string
	lines    [][]string // tokenised directive lines other than pkg/harness
	common   bool
	property string
}

func parseDirectives(path string) (*fileDirectives, []byte) {
	src, err := os.ReadFile(path)
	if err != nil {
		fatal(2, "cannot read "+path)
	}
	fd := &fileDirectives{path: path, hopts: map[string]string{}, common: strings.HasPrefix(filepath.Base(path), "common")}
	for _, ln := range strings.Split(string(src), "\n") {
		ln = strings.TrimSpace(ln)
		if !strings.HasPrefix(ln, "//verif:") {
			continue
		}
		toks := strings.Fields(strings.TrimPrefix(ln, "//verif:"))
		if len(toks) == 0 {
			continue
		}
		switch toks[0] {
		case "pkg":
			fd.pkgDir = toks[1]
		case "harness":
			fd.harness = append(fd.harness, toks[1])
			fd.hopts[toks[1]] = strings.Join(toks[2:], " ")
		default:
			fd.lines = append(fd.lines, toks)
		}
	}
	return fd, src
}

func fatal(code int, msg string) {
	fmt.Fprintln(os.Stderr, "gosymex:", msg)
	os.Exit(code)
}

func goEnv() []string {
	return append(os.Environ(), "GOFLAGS=-mod=mod", "GOPROXY=off", "GOSUMDB=off", "GOTOOLCHAIN=local")
}

type loaded struct {
	P         *Program
	harnesses []*Harness
}

// load builds SSA for /repo's working tree plus the overlay of rt and the property's harness files.
func load(property string, tier string, extraOverlay map[string]string) *loaded {
	hdir := filepath.Join(verifDir, "harness", property)
	files, _ := filepath.Glob(filepath.Join(hdir, "*.go"))
	if len(files) == 0 {
		fatal(2, "no harness files for "+property)
	}
	overlay := map[string][]byte{}
	P := &Program{repoPath: repoPath, rtPath: repoPath + "/internal/zzverifrt", tier: tier, known: map[string]bool{}, initAllow: map[string]bool{},
		zeroGlobals: map[string]bool{}, setGlobals: map[string]*ssa.Function{}, harnessFiles: map[string]bool{}, boundOverride: map[string]int{}, property: property, pkgs: map[string]*ssa.Package{}}
	rtFiles, _ := filepath.Glob(filepath.Join(verifDir, "models", "zzverifrt", "*.go"))
	var fds []*fileDirectives
	included := map[string]bool{}
	byPath := map[string]*fileDirectives{}
	byVirt := map[string]*fileDirectives{}
	for _, f := range rtFiles {
		fd, src := parseDirectives(f)
		fd.common = true
		fd.pkgDir = "internal/zzverifrt"
		vp := filepath.Join(repoDir, "internal/zzverifrt", filepath.Base(f))
		overlay[vp] = src
		P.harnessFiles[vp] = true
		fds = append(fds, fd)
	}
	patterns := map[string]bool{"./internal/zzverifrt": true}
	// //verif:include <relative path>: the named file is overlaid too and its directives (except harness lines)
	// are merged into the including file
	for qi := 0; qi < len(files); qi++ {
		fdq, _ := parseDirectives(files[qi])
		for _, t := range fdq.lines {
			if t[0] == "include" {
				inc := filepath.Clean(filepath.Join(filepath.Dir(files[qi]), t[1]))
				dup := false
				for _, x := range files {
					if x == inc {
						dup = true
					}
				}
				if !dup {
					files = append(files, inc)
					included[inc] = true
				}
			}
		}
	}
	for _, f := range files {
		fd, src := parseDirectives(f)
		if fd.pkgDir == "" {
			fatal(2, f+": missing //verif:pkg")
		}
		if included[f] {
			fd.harness = nil
		}
		byPath[f] = fd
		byVirt[filepath.Join(repoDir, fd.pkgDir, "zz_verif_"+strings.ToLower(filepath.Base(filepath.Dir(f)))+"_"+filepath.Base(f))] = fd
		vp := filepath.Join(repoDir, fd.pkgDir, "zz_verif_"+strings.ToLower(filepath.Base(filepath.Dir(f)))+"_"+filepath.Base(f))
		overlay[vp] = src
		P.harnessFiles[vp] = true
		patterns["./"+fd.pkgDir] = true
		fds = append(fds, fd)
	}
	for virt, real := range extraOverlay {
		src, err := os.ReadFile(real)
		if err != nil {
			fatal(2, "overlay: "+err.Error())
		}
		overlay[virt] = src
	}
	var pats []string
	for p := range patterns {
		pats = append(pats, p)
	}
	sort.Strings(pats)
	cfg := &packages.Config{Mode: packages.LoadAllSyntax, Dir: repoDir, Overlay: overlay, BuildFlags: []string{"-tags=verif"}, Env: goEnv()}
	pkgs, err := packages.Load(cfg, pats...)
	if err != nil {
		fatal(2, "packages.Load: "+err.Error())
	}
	nerr := 0
	packages.Visit(pkgs, nil, func(p *packages.Package) {
		for _, e := range p.Errors {
			fmt.Fprintln(os.Stderr, "HARNESS-STALE or build error:", e)
			nerr++
		}
	})
	if nerr > 0 {
		fatal(2, "the tree (with harness overlay) does not type-check; no claim is made")
	}
	prog, spkgs := ssautil.AllPackages(pkgs, ssa.InstantiateGenerics)
	prog.Build()
	P.prog = prog
	for _, sp := range prog.AllPackages() {
		P.pkgs[sp.Pkg.Path()] = sp
	}
	_ = spkgs
	P.funcByName = map[string]*ssa.Function{}
	for fn := range ssautil.AllFunctions(prog) {
		P.funcByName[fn.String()] = fn
	}
	P.loadKnown()
	for _, alt := range []string{"cvc5", "z3"} {
		if p, err := exec.LookPath(alt); err == nil && p != solverBin && os.Getenv("GOSYMEX_NOALT") == "" {
			P.altSolvers = append(P.altSolvers, p)
		}
	}
	// harnesses
	L := &loaded{P: P}
	var commons []*fileDirectives
	for _, fd := range fds {
		if fd.common {
			commons = append(commons, fd)
		}
	}
	for _, fd := range fds {
		for _, hn := range fd.harness {
			pkg := P.pkgs[repoPath+"/"+fd.pkgDir]
			if pkg == nil {
				fatal(2, "package not loaded: "+fd.pkgDir)
			}
			fn := pkg.Func(hn)
			if fn == nil {
				fatal(2, "harness function not found: "+hn)
			}
			h := &Harness{Name: hn, fn: fn, file: fd.path, pkgDir: fd.pkgDir, stubs: map[string]*ssa.Function{}, merges: map[string]bool{}, havocFuncs: map[string]*ssa.Function{},
				ifaceTypes: map[string][]types.Type{}, P: P, tiers: fd.hopts[hn], maxPaths: 3000000}
			for _, c := range commons {
				h.apply(c, pkg)
			}
			if !fd.common {
				// the directives of the file that defines the harness function, then those of the registering file
				def := byVirt[P.prog.Fset.Position(fn.Pos()).Filename]
				if def == nil {
					def = fd
				}
				// includes of the defining file first (recursively), then the defining file, then the registering file
				seenInc := map[string]bool{}
				var applyIncludes func(f *fileDirectives)
				applyIncludes = func(f *fileDirectives) {
					for _, t := range f.lines {
						if t[0] == "include" {
							ip := filepath.Clean(filepath.Join(filepath.Dir(f.path), t[1]))
							if inc := byPath[ip]; inc != nil && !inc.common && !seenInc[ip] {
								seenInc[ip] = true
								applyIncludes(inc)
								h.apply(inc, pkg)
							}
						}
					}
				}
				applyIncludes(def)
				if def != fd && !def.common {
					h.apply(def, pkg)
				}
				h.apply(fd, pkg)
			}
			L.harnesses = append(L.harnesses, h)
		}
	}
	return L
}

func (h *Harness) findFunc(name string, pkg *ssa.Package, rel *fileDirectives) *ssa.Function {
	P := h.P
	if strings.HasPrefix(name, "rt.") {
		if f := P.pkgs[P.rtPath].Func(strings.TrimPrefix(name, "rt.")); f != nil {
			return f
		}
	}
	owner := P.pkgs[repoPath+"/"+rel.pkgDir]
	if owner != nil {
		if f := owner.Func(name); f != nil {
			return f
		}
	}
	if f := pkg.Func(name); f != nil {
		return f
	}
	if f, ok := P.funcByName[name]; ok {
		return f
	}
	fatal(2, "directive refers to unknown function "+name+" ("+rel.path+")")
	return nil
}

func (h *Harness) findType(name string) types.Type {
	if name == "nil" {
		return nil
	}
	switch name {
	case "int64":
		return types.Typ[types.Int64]
	case "int":
		return types.Typ[types.Int]
	case "uint64":
		return types.Typ[types.Uint64]
	case "string":
		return types.Typ[types.String]
	case "bool":
		return types.Typ[types.Bool]
	case "float64":
		return types.Typ[types.Float64]
	case "[]byte":
		return types.NewSlice(types.Typ[types.Byte])
	case "[]any":
		return types.NewSlice(types.NewInterfaceType(nil, nil).Complete())
	case "map[any]any":
		a := types.NewInterfaceType(nil, nil).Complete()
		return types.NewMap(a, a)
	case "map[string]any":
		return types.NewMap(types.Typ[types.String], types.NewInterfaceType(nil, nil).Complete())
	}
	ptr := 0
	for strings.HasPrefix(name, "*") {
		name = name[1:]
		ptr++
	}
	i := strings.LastIndex(name, ".")
	if i < 0 {
		fatal(2, "directive type needs a package path: "+name)
	}
	pkg := h.P.pkgs[name[:i]]
	if pkg == nil {
		fatal(2, "directive refers to unknown package "+name[:i])
	}
	mem := pkg.Type(name[i+1:])
	if mem == nil {
		fatal(2, "directive refers to unknown type "+name)
	}
	t := mem.Type()
	for ; ptr > 0; ptr-- {
		t = types.NewPointer(t)
	}
	return t
}

func (h *Harness) apply(fd *fileDirectives, pkg *ssa.Package) {
	for _, t := range fd.lines {
		switch t[0] {
		case "stub", "summary":
			// //verif:stub <qualified name> -> <function>
			i := indexOf(t, "->")
			if i < 0 || i+1 >= len(t) {
				fatal(2, "bad stub directive in "+fd.path+": "+strings.Join(t, " "))
			}
			name := strings.Join(t[1:i], " ")
			if _, ok := h.P.funcByName[name]; !ok {
				fatal(2, "HARNESS-STALE: stub for unknown function "+name+" ("+fd.path+")")
			}
			h.stubs[name] = h.findFunc(t[i+1], pkg, fd)
		case "real":
			delete(h.stubs, strings.Join(t[1:], " "))
		case "merge":
			h.merges[strings.Join(t[1:], " ")] = true
		case "nomerge":
			delete(h.merges, strings.Join(t[1:], " "))
		case "init":
			h.P.initAllow[t[1]] = true
		case "zeroglobal":
			h.P.zeroGlobals[t[1]] = true
		case "setglobal":
			h.P.setGlobals[t[1]] = h.findFunc(t[3], pkg, fd)
		case "slicelen": // //verif:slicelen <name substring> <n> [<n in the thorough tier>]
			n, _ := strconv.Atoi(t[2])
			if len(t) > 3 && h.P.tier == "thorough" {
				n, _ = strconv.Atoi(t[3])
			}
			h.sliceLens = append(h.sliceLens, substrInt{t[1], n})
		case "terminates":
			n, _ := strconv.Atoi(t[2])
			h.terminates = append(h.terminates, substrInt{t[1], n})
		case "nilable":
			h.nilables = append(h.nilables, t[1])
		case "nonnil":
			h.nonnil = append(h.nonnil, t[1])
		case "oidpool":
			h.oidPools = append(h.oidPools, substrList{t[1], strings.Split(t[2], ",")})
		case "iface":
			var ts []types.Type
			for _, n := range t[2:] {
				ts = append(ts, h.findType(n))
			}
			h.ifaces = append(h.ifaces, substrList{t[1], t[2:]})
			h.ifaceTypes[t[1]] = ts
		case "havoc":
			i := indexOf(t, "->")
			h.havocFuncs[strings.Join(t[1:i], " ")] = h.findFunc(t[i+1], pkg, fd)
		case "havocfield":
			i := indexOf(t, "->")
			h.havocField = append(h.havocField, substrFn{strings.Join(t[1:i], " "), h.findFunc(t[i+1], pkg, fd)})
		case "maporders":
			h.P.mapOrders = true
		case "maxpaths":
			n, _ := strconv.ParseInt(t[1], 10, 64)
			h.maxPaths = n
		case "property", "use", "include":
		default:
			fatal(2, "unknown directive "+t[0]+" in "+fd.path)
		}
	}
}

func indexOf(t []string, s string) int {
	for i, x := range t {
		if x == s {
			return i
		}
	}
	return -1
}

// ---- known findings

func (P *Program) loadKnown() {
	b, err := os.ReadFile(filepath.Join(verifDir, "known_findings.txt"))
	if err != nil {
		return
	}
	for _, ln := range strings.Split(string(b), "\n") {
		ln = strings.TrimSpace(ln)
		var e knownEntry
		switch {
		case strings.HasPrefix(ln, "known:"):
			e.kind = "known"
		case strings.HasPrefix(ln, "fixed:"):
			e.kind = "fixed"
		default:
			continue
		}
		e.text = ln
		for _, f := range strings.Fields(ln) {
			switch {
			case strings.HasPrefix(f, "property="):
				e.property = strings.TrimPrefix(f, "property=")
			case strings.HasPrefix(f, "id="):
				e.id = strings.TrimPrefix(f, "id=")
			case strings.HasPrefix(f, "match="):
				e.match, _ = regexp.Compile(strings.TrimPrefix(f, "match="))
			}
		}
		P.knownEntries = append(P.knownEntries, e)
		if e.kind == "known" && e.id != "" {
			P.known[e.id] = true
		}
	}
}

func (P *Program) matchKnown(v *violation) *knownEntry {
	s := fmt.Sprintf("%s:%s:%s:%s", v.Kind, v.ID, v.Msg, v.Pos)
	for i := range P.knownEntries {
		e := &P.knownEntries[i]
		if e.kind == "known" && e.match != nil && e.property == P.property && e.match.MatchString(s) {
			return e
		}
	}
	return nil
}

// ---- running one path

var pathLog *os.File
var pathLogMu sync.Mutex

func init() {
	if f := os.Getenv("GOSYMEX_PATHLOG"); f != "" {
		pathLog, _ = os.Create(f)
	}
}

// harnessBudget: wall-clock limit per harness; exceeding it is inconclusive (never a pass)
var harnessBudget = 15 * time.Minute

type pathResult struct {
	end string
}

func (m *M) runPath(prefix []dec) (res pathResult) {
	m.resetPath(prefix)
	defer m.killTasks()
	defer func() {
		if r := recover(); r != nil {
			if _, isEE := r.(engineErr); !isEE {
				func() {
					defer func() { recover() }()
					m.flushAsserts()
				}()
			}
			switch p := r.(type) {
			case goPanic:
				res.end = "panic"
				m.report("panic", "PANIC", p.msg, p.pos, "", "")
			case pathEnd:
				res.end = p.why
				switch {
				case strings.HasPrefix(p.why, "DEADLOCK"):
					m.report("deadlock", "DEADLOCK", p.why, "", "", "")
				case strings.HasPrefix(p.why, "PROCESS-ABORT"):
					m.report("abort", "PROCESS-ABORT", p.why, "", "", "")
				case strings.HasPrefix(p.why, "HANG"):
					m.report("hang", "HANG", p.why, "", "", "")
				}
			case mergeAbort:
				panic(engineErr("merge abort escaped: " + p.why))
			default:
				panic(r)
			}
		}
	}()
	H := m.H
	// package initialisers of the harness package (transitively those of repo packages and the allow-list)
	if init := H.fn.Pkg.Func("init"); init != nil {
		m.call(init, nil)
	}
	if rtp := m.P.pkgs[m.P.rtPath]; rtp != nil {
		m.call(rtp.Func("init"), nil)
	}
	m.call(H.fn, nil)
	m.flushAsserts()
	if n := m.sched.unfinished(); n > 0 {
		m.report("leak", "GOROUTINE-LEAK", fmt.Sprintf("%d goroutine(s) still pending when the harness returned", n), "", "", "")
	}
	for _, r := range m.checkRaces() {
		m.report("race", "RACE", r, "", "", "")
	}
	res.end = "ok"
	return
}

// ---- worker pool

type pool struct {
	mu      sync.Mutex
	cond    *sync.Cond
	queue   [][]dec
	pending int64 // prefixes created and not yet finished
	paths   int64
	abort   string
	n       int
}

func (p *pool) take() []dec {
	p.mu.Lock()
	defer p.mu.Unlock()
	for len(p.queue) == 0 && p.pending > 0 && p.abort == "" {
		p.cond.Wait()
	}
	if len(p.queue) == 0 || p.abort != "" {
		p.cond.Broadcast()
		return nil
	}
	x := p.queue[len(p.queue)-1]
	p.queue = p.queue[:len(p.queue)-1]
	if x == nil {
		x = []dec{}
	}
	return x
}

func runHarness(P *Program, H *Harness, workers int) (*stats, string) {
	t0 := time.Now()
	p := &pool{n: workers}
	p.cond = sync.NewCond(&p.mu)
	p.queue = [][]dec{{}}
	p.pending = 1
	total := newStats()
	var wg sync.WaitGroup
	var tmu sync.Mutex
	for w := 0; w < workers; w++ {
		wg.Add(1)
		go func(w int) {
			defer wg.Done()
			m := &M{id: w, P: P, H: H, st: newStats()}
			defer func() {
				if r := recover(); r != nil {
					p.mu.Lock()
					if p.abort == "" {
						p.abort = fmt.Sprint(r)
						if ee, ok := r.(engineErr); ok {
							p.abort = "ENGINE: " + string(ee)
						} else {
							p.abort = fmt.Sprintf("ENGINE-CRASH: %v", r)
							if os.Getenv("GOSYMEX_DEBUG") != "" {
								p.mu.Unlock()
								panic(r)
							}
						}
						if m.errStack != nil {
							p.abort += "\n  ssa stack: " + strings.Join(lastN(m.errStack, 10), " > ")
						}
						if m.trace != nil {
							p.abort += "\n  trace: " + strings.Join(lastN(m.trace, 12), "\n         ")
						}
					}
					p.cond.Broadcast()
					p.mu.Unlock()
				}
				if m.sol != nil {
					m.st.queries, m.st.sat, m.st.unsat, m.st.unknown, m.st.solverDur = m.sol.queries, m.sol.sat, m.sol.unsat, m.sol.unknown, m.sol.dur
					m.sol.close()
				}
				tmu.Lock()
				total.merge(m.st)
				tmu.Unlock()
			}()
			var local [][]dec
			for {
				var prefix []dec
				if len(local) > 0 {
					prefix = local[len(local)-1]
					local = local[:len(local)-1]
				} else {
					prefix = p.take()
					if prefix == nil {
						return
					}
				}
				if m.sol == nil {
					m.sol = newSolver(solverBin)
				}
				res := m.runPath(prefix)
				m.st.paths++
				m.st.steps += m.steps
				m.st.decisions += int64(len(m.taken))
				m.st.pathEnds[classify(res.end)]++
				if pathLog != nil {
					pathLogMu.Lock()
					fmt.Fprintln(pathLog, strings.Join(m.trace, ";"))
					pathLogMu.Unlock()
				}
				if len(m.taken) > m.st.maxDepth {
					m.st.maxDepth = len(m.taken)
				}
				if len(m.st.samples) < 3 && res.end == "ok" && len(m.symNames) > 0 && (m.st.paths%7 == 1) {
					m.st.samples = append(m.st.samples, m.samplePath())
				}
				// siblings of the new decisions; deepest last so that the next path shares the longest prefix
				var sibs [][]dec
				for i := len(prefix); i < len(m.taken); i++ {
					d := m.taken[i]
					if d.forced {
						continue
					}
					for alt := d.d + 1; alt < d.n; alt++ {
						np := make([]dec, i+1)
						copy(np, m.taken[:i])
						np[i] = dec{d: alt, n: d.n}
						sibs = append(sibs, np)
					}
				}
				local = append(local, sibs...)
				p.mu.Lock()
				p.pending += int64(len(sibs)) - 1
				p.paths++
				if p.paths > H.maxPaths && p.abort == "" {
					p.abort = fmt.Sprintf("PATH-BUDGET: more than %d paths", H.maxPaths)
				}
				if p.abort == "" && time.Since(t0) > harnessBudget {
					p.abort = fmt.Sprintf("TIME-BUDGET: harness not finished after %v (%d paths so far)", harnessBudget, p.paths)
				}
				// share work: keep the deepest items, give away the shallowest ones
				if len(p.queue) < p.n && len(local) > 1 {
					give := len(local) / 2
					p.queue = append(p.queue, local[:give]...)
					local = append([][]dec{}, local[give:]...)
					p.cond.Broadcast()
				}
				done := p.pending == 0 || p.abort != ""
				if done {
					p.cond.Broadcast()
				}
				ab := p.abort
				p.mu.Unlock()
				if ab != "" {
					return
				}
				if os.Getenv("GOSYMEX_PROGRESS") != "" && m.st.paths%2000 == 0 && w == 0 {
					fmt.Fprintf(os.Stderr, "  [%s] worker0 paths=%d local=%d depth=%d queries=%d %.0fs\n", H.Name, m.st.paths, len(local), len(m.taken), m.sol.queries, time.Since(t0).Seconds())
				}
			}
		}(w)
	}
	wg.Wait()
	return total, p.abort
}

func lastN(s []string, n int) []string {
	if len(s) > n {
		return s[len(s)-n:]
	}
	return s
}

func classify(end string) string {
	if i := strings.Index(end, ":"); i > 0 {
		return end[:i]
	}
	return end
}

func (m *M) samplePath() map[string]interface{} {
	ds, _ := m.decisionsOf()
	mod := m.sol.model("", m.symNames)
	short := map[string]string{}
	n := 0
	for _, k := range m.symNames {
		if n >= 14 {
			break
		}
		if v, ok := mod[k]; ok {
			short[strings.Trim(k, "|")] = v
			n++
		}
	}
	return map[string]interface{}{"harness": m.H.Name, "decisions": ds, "symbols": len(m.symNames), "witness_model_excerpt": short, "trace_excerpt": lastN(m.trace, 8)}
}

// ---- one-shot scripts on alternative solvers

func runScript(bin, script string) satResult {
	f, err := os.CreateTemp("", "q*.smt2")
	if err != nil {
		return resUnknown
	}
	defer os.Remove(f.Name())
	f.WriteString(script)
	f.Close()
	var cmd *exec.Cmd
	if strings.Contains(bin, "cvc5") {
		cmd = exec.Command(bin, "--lang=smt2", fmt.Sprintf("--tlimit=%d", queryTimeoutMs*3), f.Name())
	} else {
		cmd = exec.Command(bin, fmt.Sprintf("-T:%d", queryTimeoutMs*3/1000), f.Name())
	}
	out, _ := cmd.Output()
	s := strings.TrimSpace(string(out))
	if strings.Contains(s, "(error") {
		return resUnknown
	}
	switch {
	case strings.HasPrefix(s, "sat"):
		return resSat
	case strings.HasPrefix(s, "unsat"):
		return resUnsat
	}
	return resUnknown
}

// ---- replay (DESIGN.md 4.1): re-run the path with the model pinned, on another solver

func (m *M) replayAssert(c Bool, id string) {
	if id != m.replayTarget || m.replayDone {
		return
	}
	m.replayDone = true
	if c.conc {
		m.replayOK = !c.v
		return
	}
	m.replayOK = m.check("(not "+c.t+")") == resSat && m.check(c.t) == resUnsat
}

func replayViolation(P *Program, H *Harness, v *violation) string {
	bin := solverBin
	if len(P.altSolvers) > 0 {
		bin = P.altSolvers[0]
	}
	m := &M{id: 99, P: P, H: H, st: newStats(), replayVals: v.Model, replayTarget: v.ID}
	m.sol = newSolver(bin)
	defer m.sol.close()
	prefix := make([]dec, len(v.Decisions))
	for i := range prefix {
		prefix[i] = dec{d: v.Decisions[i], n: 2, forced: v.Forced[i]}
		if !prefix[i].forced && v.Decisions[i] >= 2 {
			prefix[i].n = v.Decisions[i] + 1
		}
	}
	// the violating assertion itself lies beyond the recorded prefix or at its end: cut the prefix at the
	// point where the report was made (decisions recorded up to the assertion)
	res := func() (res pathResult) {
		defer func() {
			if r := recover(); r != nil {
				if ee, ok := r.(engineErr); ok {
					res.end = "ENGINE: " + string(ee)
					return
				}
				panic(r)
			}
		}()
		return m.runPath(prefix)
	}()
	switch v.Kind {
	case "assert":
		if m.replayDone && m.replayOK {
			return "confirmed"
		}
		return "mismatch (" + res.end + ")"
	default:
		for _, nv := range m.st.viols {
			if nv.Kind == v.Kind && nv.Msg == v.Msg {
				return "confirmed"
			}
		}
		return "mismatch (" + res.end + ")"
	}
}

// ---- evidence

type evidence struct {
	PropertyID  string                 `json:"property_id"`
	Tier        string                 `json:"tier"`
	Seed        int64                  `json:"seed"`
	Level       string                 `json:"level"`
	Coverage    map[string]interface{} `json:"coverage"`
	Assumptions []string               `json:"assumptions"`
	WallS       float64                `json:"wall_s"`
	Violations  int                    `json:"violations"`
}

func readAssumptions(property string) []string {
	b, err := os.ReadFile(filepath.Join(verifDir, "harness", property, "ASSUMPTIONS.txt"))
	if err != nil {
		return []string{"see DESIGN.md section 3 (leaf contracts)"}
	}
	var out []string
	for _, l := range strings.Split(string(b), "\n") {
		if l = strings.TrimSpace(l); l != "" && !strings.HasPrefix(l, "#") {
			out = append(out, l)
		}
	}
	return out
}

func writeJSON(path string, v interface{}) {
	b, _ := json.MarshalIndent(v, "", " ")
	os.MkdirAll(filepath.Dir(path), 0o755)
	os.WriteFile(path, b, 0o644)
}
