// interp.go: SSA instruction semantics (DESIGN.md appendix G).
package main

import (
	"fmt"
	"go/constant"
	"go/token"
	"go/types"
	"strings"

	"golang.org/x/tools/go/ssa"
)

type deferred struct {
	fn   Value
	args []Value
	bi   string
}

type frame struct {
	fn        *ssa.Function
	env       map[ssa.Value]Value
	defers    []deferred
	panicking *goPanic
	visits    map[*ssa.BasicBlock]int
	m         *M
}

const loopBound = 600

func (m *M) newObj(v Value) *Obj {
	m.objCount++
	return &Obj{v: v, id: m.objCount}
}

func (m *M) pos(p token.Pos) string {
	if !p.IsValid() {
		return "?"
	}
	ps := m.P.prog.Fset.Position(p)
	return fmt.Sprintf("%s:%d", strings.TrimPrefix(ps.Filename, "/repo/"), ps.Line)
}

func (m *M) slot(p Ptr) *Value {
	if p.obj == nil {
		panic(goPanic{msg: "invalid memory address or nil pointer dereference"})
	}
	cur := &p.obj.v
	for _, i := range p.path {
		if _, isL := (*cur).(Lazy); isL {
			*cur = m.force(*cur)
		}
		a, ok := (*cur).(Agg)
		if !ok {
			panic(engineErr(fmt.Sprintf("slot: path into %T (object %s)", *cur, p.obj.name)))
		}
		if i < 0 || i >= len(a) {
			panic(goPanic{msg: "index out of range"})
		}
		cur = &a[i]
	}
	if _, isL := (*cur).(Lazy); isL {
		*cur = m.force(*cur)
	}
	return cur
}
func (m *M) load(p Ptr) Value { m.recordAccess(p, false); return copyVal(*m.slot(p)) }
func (m *M) store(p Ptr, v Value) {
	if m.merging > 0 && p.obj != nil && (p.obj.glob || p.obj.id < m.mergeBorn) {
		panic(mergeAbort{"store to pre-existing object"})
	}
	m.recordAccess(p, true)
	*m.slot(p) = copyVal(v)
}
func (p Ptr) sub(i int) Ptr {
	np := make([]int, len(p.path)+1)
	copy(np, p.path)
	np[len(p.path)] = i
	return Ptr{p.obj, np}
}

func (m *M) global(g *ssa.Global) *Obj {
	o, ok := m.globals[g]
	if ok {
		return o
	}
	et := g.Type().(*types.Pointer).Elem()
	pkgPath := ""
	if g.Pkg != nil {
		pkgPath = g.Pkg.Pkg.Path()
	}
	var v Value
	if m.P.initRuns(pkgPath) || g.Name() == "init$guard" {
		v = zero(et)
	} else {
		v = m.P.uninitGlobal(m, g, et)
	}
	o = m.newObj(v)
	o.glob = true
	o.name = g.String()
	o.ghost = pkgPath == m.P.rtPath || m.P.isHarnessFile(m.P.prog.Fset.Position(g.Pos()).Filename)
	m.globals[g] = o
	return o
}

func constVal(c *ssa.Const) Value {
	t := c.Type()
	if c.Value == nil {
		return zero(t)
	}
	if w, s, ok := intInfo(t); ok {
		if s {
			v, _ := constant.Int64Val(constant.ToInt(c.Value))
			return cInt(w, s, uint64(v))
		}
		v, _ := constant.Uint64Val(constant.ToInt(c.Value))
		return cInt(w, s, v)
	}
	switch b := t.Underlying().(*types.Basic); {
	case b.Info()&types.IsBoolean != 0:
		return cBool(constant.BoolVal(c.Value))
	case b.Info()&types.IsString != 0:
		return Str{conc: true, s: constant.StringVal(c.Value)}
	case b.Info()&types.IsFloat != 0:
		f, _ := constant.Float64Val(c.Value)
		return Float{conc: true, f: f}
	}
	panic(engineErr("const " + c.String()))
}

func (f *frame) get(v ssa.Value) Value {
	switch x := v.(type) {
	case *ssa.Const:
		return constVal(x)
	case *ssa.Global:
		return Ptr{obj: f.m.global(x)}
	case *ssa.Function:
		return Closure{fn: x}
	case *ssa.Builtin:
		return x
	}
	r, ok := f.env[v]
	if !ok {
		panic(engineErr(fmt.Sprintf("unbound %s in %s", v.Name(), f.fn)))
	}
	if _, isL := r.(Lazy); isL {
		r = f.m.force(r)
		f.env[v] = r
	}
	return r
}

func (m *M) strEq(a, b Str) Bool {
	if a.conc && b.conc {
		return cBool(a.s == b.s)
	}
	if a.isArr || b.isArr {
		return m.arrStrEq(a, b)
	}
	al, ab := strTerms(a)
	bl, bb := strTerms(b)
	if al == bl && ab == bb {
		return cBool(true)
	}
	return Bool{t: fmt.Sprintf("(and (= %s %s) (or (= %s (_ bv0 64)) (= %s %s)))", al, bl, al, ab, bb)}
}

func strBytes(a Str) []Int {
	if a.conc {
		r := make([]Int, len(a.s))
		for i := range r {
			r[i] = cInt(8, false, uint64(a.s[i]))
		}
		return r
	}
	return a.arr
}

func (m *M) arrStrEq(a, b Str) Bool {
	if (!a.conc && !a.isArr) || (!b.conc && !b.isArr) {
		panic(engineErr("comparison of array-form and atom-form strings"))
	}
	x, y := strBytes(a), strBytes(b)
	if len(x) != len(y) {
		return cBool(false)
	}
	r := cBool(true)
	for i := range x {
		r = bAnd(r, m.valEq(x[i], y[i]))
	}
	return r
}

func (m *M) valEq(a, b Value) Bool {
	a, b = m.force(a), m.force(b)
	switch x := a.(type) {
	case nil:
		return cBool(b == nil)
	case Int:
		y := b.(Int)
		if x.conc && y.conc {
			return cBool(x.v == y.v)
		}
		if !x.conc && !y.conc && x.t == y.t {
			return cBool(true)
		}
		return Bool{t: fmt.Sprintf("(= %s %s)", x.term(), y.term())}
	case Bool:
		y := b.(Bool)
		if x.conc && y.conc {
			return cBool(x.v == y.v)
		}
		return Bool{t: fmt.Sprintf("(= %s %s)", x.term(), y.term())}
	case Float:
		y := b.(Float)
		if x.conc && y.conc {
			return cBool(x.f == y.f)
		}
		return Bool{t: fmt.Sprintf("(= %s %s)", floatTerm(x), floatTerm(y))}
	case Str:
		return m.strEq(x, b.(Str))
	case Ptr:
		y, ok := b.(Ptr)
		if !ok {
			return cBool(false)
		}
		return cBool(ptrSame(x, y))
	case Iface:
		y := b.(Iface)
		x, y = m.resolveIface(x), m.resolveIface(y)
		if x.t == nil || y.t == nil {
			return cBool(x.t == nil && y.t == nil)
		}
		if !types.Identical(x.t, y.t) {
			return cBool(false)
		}
		if !types.Comparable(x.t) {
			panic(goPanic{msg: "runtime error: comparing uncomparable type " + x.t.String()})
		}
		return m.valEq(x.v, y.v)
	case Slice:
		y := b.(Slice)
		if y.isNil {
			return cBool(x.isNil)
		}
		if x.isNil {
			return cBool(y.isNil)
		}
		return cBool(x.arr == y.arr && x.off == y.off && x.ln == y.ln && !x.abs)
	case Agg:
		y := b.(Agg)
		r := cBool(true)
		for i := range x {
			r = bAnd(r, m.valEq(x[i], y[i]))
		}
		return r
	case Closure:
		y := b.(Closure)
		return cBool(x.fn == nil && y.fn == nil)
	case *ssa.Builtin:
		return cBool(false)
	}
	panic(engineErr(fmt.Sprintf("valEq %T", a)))
}

func floatTerm(f Float) string {
	if f.conc {
		return fmt.Sprintf("(_ bv%d 64)", labelOf(fmt.Sprint(f.f)))
	}
	return f.t
}

func (m *M) binop(op token.Token, a, b Value, pos token.Pos) Value {
	a, b = m.force(a), m.force(b)
	switch op {
	case token.EQL:
		return m.valEq(a, b)
	case token.NEQ:
		return bNot(m.valEq(a, b))
	}
	switch x := a.(type) {
	case Int:
		y := b.(Int)
		if op == token.SHL || op == token.SHR {
			if y.conc {
				if y.sgn && y.signed() < 0 {
					panic(goPanic{msg: "negative shift amount"})
				}
				sv := y.v
				if sv > 64 {
					sv = 64
				}
				y = cInt(x.w, false, sv)
				if x.w < 64 && sv >= uint64(x.w) && !x.conc {
					// bvshl by >= width gives 0 in SMT-LIB as in Go; arithmetic shift saturates: fine
				}
			} else if y.w != x.w {
				if y.w < x.w {
					y = Int{w: x.w, t: fmt.Sprintf("((_ zero_extend %d) %s)", x.w-y.w, y.t)}
				} else {
					// saturate instead of truncating
					y = Int{w: x.w, t: fmt.Sprintf("(ite (bvuge %s (_ bv%d %d)) (_ bv%d %d) ((_ extract %d 0) %s))", y.t, x.w, y.w, x.w, x.w, x.w-1, y.t)}
				}
			}
		}
		if x.conc && y.conc {
			return foldInt(op, x, y)
		}
		if (op == token.QUO || op == token.REM) && !y.conc {
			if m.branch(Bool{t: fmt.Sprintf("(= %s (_ bv0 %d))", y.t, y.w)}) {
				panic(goPanic{msg: "integer divide by zero"})
			}
		}
		if (op == token.QUO || op == token.REM) && y.conc && y.v == 0 {
			panic(goPanic{msg: "integer divide by zero"})
		}
		var f string
		cmp := false
		switch op {
		case token.ADD:
			f = "bvadd"
		case token.SUB:
			f = "bvsub"
		case token.MUL:
			f = "bvmul"
		case token.QUO:
			f = map[bool]string{true: "bvsdiv", false: "bvudiv"}[x.sgn]
		case token.REM:
			f = map[bool]string{true: "bvsrem", false: "bvurem"}[x.sgn]
		case token.AND:
			f = "bvand"
		case token.OR:
			f = "bvor"
		case token.XOR:
			f = "bvxor"
		case token.AND_NOT:
			return nInt(Int{w: x.w, sgn: x.sgn, t: fmt.Sprintf("(bvand %s (bvnot %s))", x.term(), y.term())})
		case token.SHL:
			f = "bvshl"
		case token.SHR:
			f = map[bool]string{true: "bvashr", false: "bvlshr"}[x.sgn]
		case token.LSS:
			f, cmp = map[bool]string{true: "bvslt", false: "bvult"}[x.sgn], true
		case token.LEQ:
			f, cmp = map[bool]string{true: "bvsle", false: "bvule"}[x.sgn], true
		case token.GTR:
			f, cmp = map[bool]string{true: "bvsgt", false: "bvugt"}[x.sgn], true
		case token.GEQ:
			f, cmp = map[bool]string{true: "bvsge", false: "bvuge"}[x.sgn], true
		default:
			panic(engineErr("binop int " + op.String()))
		}
		tm := fmt.Sprintf("(%s %s %s)", f, x.term(), y.term())
		if cmp {
			return nBool(Bool{t: tm})
		}
		return nInt(Int{w: x.w, sgn: x.sgn, t: tm})
	case Bool:
		y := b.(Bool)
		switch op {
		case token.AND, token.LAND:
			return bAnd(x, y)
		case token.OR, token.LOR:
			return bOr(x, y)
		case token.XOR:
			return bNot(m.valEq(x, y))
		}
	case Str:
		y := b.(Str)
		if x.conc && y.conc {
			switch op {
			case token.ADD:
				return Str{conc: true, s: x.s + y.s}
			case token.LSS:
				return cBool(x.s < y.s)
			case token.LEQ:
				return cBool(x.s <= y.s)
			case token.GTR:
				return cBool(x.s > y.s)
			case token.GEQ:
				return cBool(x.s >= y.s)
			}
		}
		if op == token.ADD {
			if (x.conc || !x.isArr) && (y.conc || !y.isArr) && !(x.conc && y.conc) {
				// a + b with an atom involved remembers its pieces, exactly as strings.Join / strings.Builder do, so that
				// strings.Cut / Split take the text apart again into the same atoms (behaviour-preserving change B4)
				return m.ropeConcat(x, y)
			}
			return m.strConcat(x, y)
		}
	case Float:
		y := b.(Float)
		if x.conc && y.conc {
			switch op {
			case token.ADD:
				return Float{conc: true, f: x.f + y.f}
			case token.SUB:
				return Float{conc: true, f: x.f - y.f}
			case token.MUL:
				return Float{conc: true, f: x.f * y.f}
			case token.QUO:
				return Float{conc: true, f: x.f / y.f}
			case token.LSS:
				return cBool(x.f < y.f)
			case token.LEQ:
				return cBool(x.f <= y.f)
			case token.GTR:
				return cBool(x.f > y.f)
			case token.GEQ:
				return cBool(x.f >= y.f)
			}
		}
		panic(engineErr("symbolic float arithmetic at " + m.pos(pos)))
	}
	panic(engineErr(fmt.Sprintf("binop %s %T at %s", op, a, m.pos(pos))))
}

// strConcat: concatenation involving atoms is an uninterpreted function of the operands (memoised per path):
// same operands, same result; the length is the sum of the lengths.
func (m *M) strConcat(x, y Str) Str {
	if x.conc && x.s == "" {
		return y
	}
	if y.conc && y.s == "" {
		return x
	}
	if (x.conc || x.isArr) && (y.conc || y.isArr) {
		return Str{isArr: true, arr: append(append([]Int{}, strBytes(x)...), strBytes(y)...)}
	}
	if x.isArr || y.isArr {
		panic(engineErr("concatenation of array-form and atom-form strings"))
	}
	xl, xb := strTerms(x)
	yl, yb := strTerms(y)
	key := "concat(" + xl + "," + xb + "," + yl + "," + yb + ")"
	if v, ok := m.lazyMemo[key]; ok {
		return v.(Str)
	}
	n := m.seq("concat")
	lab := m.sym(fmt.Sprintf("concat%d.lab", n), "(_ BitVec 64)")
	r := Str{lenT: nameTerm("(_ BitVec 64)", fmt.Sprintf("(bvadd %s %s)", xl, yl)), labT: lab}
	m.lazyMemo[key] = r
	m.tracef("concat%d = %s ++ %s", n, describeStr(x), describeStr(y))
	return r
}

func describeStr(s Str) string {
	if s.conc {
		return fmt.Sprintf("%q", s.s)
	}
	return s.labT
}

func foldInt(op token.Token, x, y Int) Value {
	w, s := x.w, x.sgn
	switch op {
	case token.ADD:
		return cInt(w, s, x.v+y.v)
	case token.SUB:
		return cInt(w, s, x.v-y.v)
	case token.MUL:
		return cInt(w, s, x.v*y.v)
	case token.AND:
		return cInt(w, s, x.v&y.v)
	case token.OR:
		return cInt(w, s, x.v|y.v)
	case token.XOR:
		return cInt(w, s, x.v^y.v)
	case token.AND_NOT:
		return cInt(w, s, x.v&^y.v)
	case token.SHL:
		if y.v >= 64 {
			return cInt(w, s, 0)
		}
		return cInt(w, s, x.v<<y.v)
	case token.SHR:
		if s {
			sh := y.v
			if sh > 63 {
				sh = 63
			}
			return cInt(w, s, uint64(x.signed()>>sh))
		}
		if y.v >= 64 {
			return cInt(w, s, 0)
		}
		return cInt(w, s, x.v>>y.v)
	case token.QUO:
		if y.v == 0 {
			panic(goPanic{msg: "integer divide by zero"})
		}
		if s {
			if y.signed() == -1 {
				return cInt(w, s, uint64(-x.signed()))
			}
			return cInt(w, s, uint64(x.signed()/y.signed()))
		}
		return cInt(w, s, x.v/y.v)
	case token.REM:
		if y.v == 0 {
			panic(goPanic{msg: "integer divide by zero"})
		}
		if s {
			if y.signed() == -1 {
				return cInt(w, s, 0)
			}
			return cInt(w, s, uint64(x.signed()%y.signed()))
		}
		return cInt(w, s, x.v%y.v)
	case token.LSS:
		if s {
			return cBool(x.signed() < y.signed())
		}
		return cBool(x.v < y.v)
	case token.LEQ:
		if s {
			return cBool(x.signed() <= y.signed())
		}
		return cBool(x.v <= y.v)
	case token.GTR:
		if s {
			return cBool(x.signed() > y.signed())
		}
		return cBool(x.v > y.v)
	case token.GEQ:
		if s {
			return cBool(x.signed() >= y.signed())
		}
		return cBool(x.v >= y.v)
	}
	panic(engineErr("foldInt " + op.String()))
}

func (m *M) convert(v Value, from, to types.Type, pos token.Pos) Value {
	v = m.force(v)
	if tw, ts, ok := intInfo(to); ok {
		switch x := v.(type) {
		case Int:
			if x.conc {
				if x.sgn {
					return cInt(tw, ts, uint64(x.signed()))
				}
				return cInt(tw, ts, x.v)
			}
			switch {
			case tw == x.w:
				return Int{w: tw, sgn: ts, t: x.t}
			case tw < x.w:
				return nInt(Int{w: tw, sgn: ts, t: fmt.Sprintf("((_ extract %d 0) %s)", tw-1, x.t)})
			case x.sgn:
				return nInt(Int{w: tw, sgn: ts, t: fmt.Sprintf("((_ sign_extend %d) %s)", tw-x.w, x.t)})
			default:
				return nInt(Int{w: tw, sgn: ts, t: fmt.Sprintf("((_ zero_extend %d) %s)", tw-x.w, x.t)})
			}
		case Float:
			if x.conc {
				if ts {
					return cInt(tw, ts, uint64(int64(x.f)))
				}
				return cInt(tw, ts, uint64(x.f))
			}
			panic(engineErr("symbolic float to int at " + m.pos(pos)))
		}
	}
	if isFloat(to) {
		switch x := v.(type) {
		case Float:
			return x
		case Int:
			if x.conc {
				if x.sgn {
					return Float{conc: true, f: float64(x.signed())}
				}
				return Float{conc: true, f: float64(x.v)}
			}
			// opaque: the float is identified with the integer it came from
			return Float{t: nameTerm("(_ BitVec 64)", fmt.Sprintf("(bvxor (_ bv%d 64) %s)", labelOf("float-of-int"), m.convert(x, from, types.Typ[types.Uint64], pos).(Int).term()))}
		}
	}
	if isString(to) {
		switch x := v.(type) {
		case Int: // rune -> string
			if !x.conc {
				panic(engineErr("symbolic rune to string"))
			}
			return Str{conc: true, s: string(rune(x.signed()))}
		case Str:
			return x
		case Slice:
			if x.abs {
				return Str{lenT: x.lenT, labT: x.labT}
			}
			if x.isNil || x.ln == 0 {
				return Str{conc: true}
			}
			el := m.sliceElems(x)
			allConc := true
			for _, e := range el {
				if i, ok := m.force(e).(Int); !ok || !i.conc {
					allConc = false
				}
			}
			if allConc {
				if _, isRune := intInfoW(from.Underlying().(*types.Slice).Elem()); isRune == 32 {
					rs := make([]rune, len(el))
					for i, e := range el {
						rs[i] = rune(m.force(e).(Int).signed())
					}
					return Str{conc: true, s: string(rs)}
				}
				bs := make([]byte, len(el))
				for i, e := range el {
					bs[i] = byte(m.force(e).(Int).v)
				}
				return Str{conc: true, s: string(bs)}
			}
			arr := make([]Int, len(el))
			for i, e := range el {
				arr[i] = m.force(e).(Int)
			}
			return Str{isArr: true, arr: arr}
		}
	}
	if st, ok := to.Underlying().(*types.Slice); ok {
		if x, ok := v.(Str); ok {
			if !x.conc && !x.isArr {
				return Slice{abs: true, lenT: x.lenT, labT: x.labT}
			}
			if _, w := intInfoW(st.Elem()); w == 32 {
				if !x.conc {
					panic(engineErr("symbolic string to []rune"))
				}
				rs := []rune(x.s)
				a := make(Agg, len(rs))
				for i := range a {
					a[i] = cInt(32, true, uint64(rs[i]))
				}
				return Slice{arr: m.newObj(a), ln: len(a), cp: len(a)}
			}
			bs := strBytes(x)
			a := make(Agg, len(bs))
			for i := range a {
				a[i] = bs[i]
			}
			return Slice{arr: m.newObj(a), ln: len(a), cp: len(a)}
		}
	}
	if _, ok := to.Underlying().(*types.Pointer); ok {
		return v // unsafe.Pointer conversions: carried
	}
	if b, ok := to.Underlying().(*types.Basic); ok && b.Kind() == types.UnsafePointer {
		return v
	}
	panic(engineErr(fmt.Sprintf("convert %s -> %s (%T) at %s", from, to, v, m.pos(pos))))
}

func intInfoW(t types.Type) (bool, int) {
	w, s, ok := intInfo(t)
	if !ok {
		return false, 0
	}
	return s, w
}

func (m *M) sliceElems(s Slice) Agg {
	if s.isNil || s.ln == 0 {
		return nil
	}
	if s.abs {
		panic(engineErr("looking inside an atom byte slice"))
	}
	if _, isL := s.arr.v.(Lazy); isL {
		s.arr.v = m.force(s.arr.v)
	}
	return s.arr.v.(Agg)[s.off : s.off+s.ln]
}

// concIndex turns an index value into a concrete int; a symbolic index is case-split over [0,n).
func (m *M) concIndex(v Value, n int, what string) int {
	idx := m.force(v).(Int)
	if idx.conc {
		return int(idx.signed())
	}
	const symIndexMax = 64
	for i := 0; i < n && i < symIndexMax; i++ {
		if m.branch(Bool{t: fmt.Sprintf("(= %s (_ bv%d %d))", idx.t, i, idx.w)}) {
			return i
		}
	}
	if n > symIndexMax {
		// the case split above is not exhaustive: an index in [symIndexMax, n) must be impossible here
		if m.branch(Bool{t: fmt.Sprintf("(and (bvuge %s (_ bv%d %d)) (bvult %s (_ bv%d %d)))", idx.t, symIndexMax, idx.w, idx.t, n, idx.w)}) {
			panic(engineErr(fmt.Sprintf("symbolic %s index may exceed %d (length %d): case split not exhaustive", what, symIndexMax, n)))
		}
	}
	// anything else is out of range
	return -1
}

func (m *M) call(fn *ssa.Function, args []Value) Value { return m.callImpl(fn, args, nil) }

func zeroResults(fn *ssa.Function) Value {
	r := fn.Signature.Results()
	switch r.Len() {
	case 0:
		return nil
	case 1:
		return zero(r.At(0).Type())
	}
	return zero(r)
}

const maxDepth = 400

func (m *M) callImpl(fn *ssa.Function, args []Value, fv []Value) (ret Value) {
	if h, ok := m.resolveSpecial(fn); ok {
		return h(m, fn, args)
	}
	if len(fn.Blocks) == 0 {
		panic(engineErr("no body and no model: " + fn.String()))
	}
	if m.merging == 0 && m.H.mergeable(fn) {
		if r, ok := m.tryMerge(fn, args, fv); ok {
			return r
		}
	}
	m.st.funcs[fn.String()]++
	m.depth++
	m.stack = append(m.stack, fn)
	if m.depth > maxDepth {
		panic(engineErr("call depth exceeded in " + fn.String()))
	}
	f := &frame{fn: fn, env: make(map[ssa.Value]Value, 16), m: m}
	for i, p := range fn.Params {
		f.env[p] = args[i]
	}
	for i, v := range fn.FreeVars {
		f.env[v] = fv[i]
	}
	defer func() {
		m.depth--
		if r := recover(); r != nil {
			gp, ok := r.(goPanic)
			if !ok {
				if _, isEE := r.(engineErr); isEE && m.errStack == nil {
					for _, f := range m.stack {
						m.errStack = append(m.errStack, f.String())
					}
				}
				m.stack = m.stack[:len(m.stack)-1]
				panic(r)
			}
			m.stack = m.stack[:len(m.stack)-1]
			if gp.pos == "" {
				gp.pos = fn.String()
			}
			f.panicking = &gp
			f.runDefers()
			if f.panicking != nil {
				panic(*f.panicking)
			}
			// recovered
			if fn.Recover != nil {
				ret = f.runFrom(fn.Recover)
			} else {
				ret = zeroResults(fn)
			}
		}
	}()
	ret = f.runFrom(fn.Blocks[0])
	m.stack = m.stack[:len(m.stack)-1]
	return ret
}

func (f *frame) cover(in ssa.Instruction) {
	p := in.Pos()
	if !p.IsValid() {
		return
	}
	ps := f.m.P.prog.Fset.Position(p)
	if !strings.HasPrefix(ps.Filename, "/repo/") {
		return
	}
	ls := f.m.st.lines[ps.Filename]
	if ls == nil {
		ls = map[int]bool{}
		f.m.st.lines[ps.Filename] = ls
	}
	ls[ps.Line] = true
}

func (f *frame) runFrom(b *ssa.BasicBlock) Value {
	m := f.m
	fn := f.fn
	inRepo := fn.Pkg != nil && strings.HasPrefix(fn.Pkg.Pkg.Path(), m.P.repoPath)
	var prev *ssa.BasicBlock
	for {
		if f.visits == nil {
			f.visits = map[*ssa.BasicBlock]int{}
		}
		f.visits[b]++
		if inRepo && !m.st.blocks[b] {
			m.st.blocks[b] = true
		}
		if tb := m.H.terminationBound(fn); tb > 0 && f.visits[b] > tb {
			// the harness states that every loop of this function ends within tb iterations for its bounded input
			// (//verif:terminates): going beyond is reported as a hang, not as an exceeded unwinding bound
			panic(pathEnd{fmt.Sprintf("HANG: more than %d iterations of a loop in %s (block %d)", tb, fn, b.Index)})
		}
		if f.visits[b] > loopBound {
			panic(engineErr(fmt.Sprintf("UNWINDING: loop bound %d exceeded in %s block %d", loopBound, fn, b.Index)))
		}
		var next *ssa.BasicBlock
		// phis are evaluated in parallel
		nphi := 0
		for _, in := range b.Instrs {
			if _, ok := in.(*ssa.Phi); ok {
				nphi++
			} else {
				break
			}
		}
		if nphi > 0 {
			vals := make([]Value, nphi)
			for k := 0; k < nphi; k++ {
				x := b.Instrs[k].(*ssa.Phi)
				for i, p := range b.Preds {
					if p == prev {
						vals[k] = f.get(x.Edges[i])
						break
					}
				}
			}
			for k := 0; k < nphi; k++ {
				f.env[b.Instrs[k].(*ssa.Phi)] = vals[k]
			}
		}
		for _, in := range b.Instrs[nphi:] {
			m.steps++
			switch x := in.(type) {
			case *ssa.Alloc:
				o := m.newObj(zero(x.Type().(*types.Pointer).Elem()))
				// state of the environment models of the intrinsics package (e.g. the cancel context) stands for
				// library-internal, internally synchronised state: not part of the footprints
				if pk := f.fn.Package(); pk != nil && pk.Pkg.Path() == m.P.rtPath {
					o.ghost = true
				}
				f.env[x] = Ptr{obj: o}
			case *ssa.Store:
				p, ok := f.get(x.Addr).(Ptr)
				if !ok {
					panic(engineErr("store through non-pointer"))
				}
				if p.obj == nil {
					panic(goPanic{msg: "invalid memory address or nil pointer dereference (store)", pos: m.pos(x.Pos())})
				}
				m.store(p, f.get(x.Val))
			case *ssa.UnOp:
				f.env[x] = f.unop(x)
			case *ssa.BinOp:
				f.env[x] = m.binop(x.Op, f.get(x.X), f.get(x.Y), x.Pos())
			case *ssa.FieldAddr:
				p := f.get(x.X).(Ptr)
				if p.obj == nil {
					panic(goPanic{msg: "invalid memory address or nil pointer dereference (field)", pos: m.pos(x.Pos())})
				}
				f.env[x] = p.sub(x.Field)
			case *ssa.Field:
				f.env[x] = copyVal(m.force(m.force(f.get(x.X)).(Agg)[x.Field]))
			case *ssa.IndexAddr:
				switch c := f.get(x.X).(type) {
				case Ptr:
					if c.obj == nil {
						panic(goPanic{msg: "invalid memory address or nil pointer dereference (index)", pos: m.pos(x.Pos())})
					}
					n := int(x.X.Type().Underlying().(*types.Pointer).Elem().Underlying().(*types.Array).Len())
					i := m.concIndex(f.get(x.Index), n, "array")
					if i < 0 || i >= n {
						panic(goPanic{msg: "index out of range", pos: m.pos(x.Pos())})
					}
					f.env[x] = c.sub(i)
				case Slice:
					if c.abs {
						panic(engineErr("indexing an atom byte slice at " + m.pos(x.Pos())))
					}
					i := m.concIndex(f.get(x.Index), c.ln, "slice")
					if i < 0 || i >= c.ln {
						panic(goPanic{msg: fmt.Sprintf("index out of range [%d] with length %d", i, c.ln), pos: m.pos(x.Pos())})
					}
					f.env[x] = Ptr{obj: c.arr}.sub(c.off + i)
				default:
					panic(engineErr(fmt.Sprintf("IndexAddr on %T", c)))
				}
			case *ssa.Index:
				switch c := m.force(f.get(x.X)).(type) {
				case Agg:
					i := m.concIndex(f.get(x.Index), len(c), "array")
					if i < 0 || i >= len(c) {
						panic(goPanic{msg: "index out of range", pos: m.pos(x.Pos())})
					}
					f.env[x] = copyVal(m.force(c[i]))
				case Str:
					f.env[x] = m.strIndex(c, f.get(x.Index), x.Pos())
				default:
					panic(engineErr(fmt.Sprintf("Index on %T", c)))
				}
			case *ssa.Slice:
				f.env[x] = f.doSlice(x)
			case *ssa.MakeSlice:
				n := m.concIndex(f.get(x.Len), 1<<30, "makeslice len")
				c := m.concIndex(f.get(x.Cap), 1<<30, "makeslice cap")
				if n < 0 || c < n {
					panic(goPanic{msg: "makeslice: len out of range", pos: m.pos(x.Pos())})
				}
				if c > 1<<20 {
					panic(engineErr("makeslice too large at " + m.pos(x.Pos())))
				}
				et := x.Type().Underlying().(*types.Slice).Elem()
				a := make(Agg, c)
				for i := range a {
					a[i] = zero(et)
				}
				f.env[x] = Slice{arr: m.newObj(a), ln: n, cp: c}
			case *ssa.MakeInterface:
				f.env[x] = Iface{t: x.X.Type(), v: f.get(x.X)}
			case *ssa.ChangeInterface:
				f.env[x] = f.get(x.X)
			case *ssa.ChangeType:
				f.env[x] = f.get(x.X)
			case *ssa.Convert:
				f.env[x] = m.convert(f.get(x.X), x.X.Type(), x.Type(), x.Pos())
			case *ssa.MultiConvert:
				f.env[x] = m.convert(f.get(x.X), x.X.Type(), x.Type(), x.Pos())
			case *ssa.SliceToArrayPointer:
				s := f.get(x.X).(Slice)
				n := int(x.Type().Underlying().(*types.Pointer).Elem().Underlying().(*types.Array).Len())
				if s.ln < n {
					panic(goPanic{msg: "cannot convert slice to array pointer: length too short", pos: m.pos(x.Pos())})
				}
				if s.isNil {
					f.env[x] = Ptr{}
				} else if s.off == 0 && len(s.arr.v.(Agg)) == n {
					f.env[x] = Ptr{obj: s.arr}
				} else {
					panic(engineErr("SliceToArrayPointer on a sub-slice"))
				}
			case *ssa.MakeClosure:
				fv := make([]Value, len(x.Bindings))
				for i, bnd := range x.Bindings {
					fv[i] = f.get(bnd)
				}
				f.env[x] = Closure{fn: x.Fn.(*ssa.Function), fv: fv}
			case *ssa.Extract:
				f.env[x] = f.get(x.Tuple).(Tuple)[x.Index]
			case *ssa.TypeAssert:
				f.env[x] = f.typeAssert(x)
			case *ssa.Call:
				f.env[x] = f.doCall(x.Common(), x.Pos())
			case *ssa.If:
				c, ok := f.get(x.Cond).(Bool)
				if !ok {
					panic(engineErr(fmt.Sprintf("If on %T", f.get(x.Cond))))
				}
				if m.branch(c) {
					next = b.Succs[0]
				} else {
					next = b.Succs[1]
				}
			case *ssa.Jump:
				next = b.Succs[0]
			case *ssa.Return:
				switch len(x.Results) {
				case 0:
					return nil
				case 1:
					return f.get(x.Results[0])
				}
				t := make(Tuple, len(x.Results))
				for i, r := range x.Results {
					t[i] = f.get(r)
				}
				return t
			case *ssa.Panic:
				pv := f.get(x.X)
				panic(goPanic{msg: "panic: " + describe(pv), val: pv, pos: m.pos(x.Pos())})
			case *ssa.DebugRef:
			default:
				if !f.extra(in) {
					panic(engineErr(fmt.Sprintf("instr %T in %s", in, fn)))
				}
			}
		}
		if next == nil {
			panic(engineErr("fell off block in " + fn.String()))
		}
		prev, b = b, next
	}
}

func (m *M) strIndex(c Str, iv Value, pos token.Pos) Value {
	if !c.conc && !c.isArr {
		panic(engineErr("indexing an atom string at " + m.pos(pos)))
	}
	bs := strBytes(c)
	i := m.concIndex(iv, len(bs), "string")
	if i < 0 || i >= len(bs) {
		panic(goPanic{msg: "index out of range (string)", pos: m.pos(pos)})
	}
	return bs[i]
}

func (f *frame) unop(x *ssa.UnOp) Value {
	m := f.m
	v := f.get(x.X)
	switch x.Op {
	case token.MUL:
		p, ok := v.(Ptr)
		if !ok {
			panic(engineErr(fmt.Sprintf("load through %T", v)))
		}
		if p.obj == nil {
			panic(goPanic{msg: "invalid memory address or nil pointer dereference (load)", pos: m.pos(x.Pos())})
		}
		return m.load(p)
	case token.NOT:
		return bNot(v.(Bool))
	case token.SUB:
		switch i := v.(type) {
		case Int:
			if i.conc {
				return cInt(i.w, i.sgn, -i.v)
			}
			return Int{w: i.w, sgn: i.sgn, t: "(bvneg " + i.t + ")"}
		case Float:
			if i.conc {
				return Float{conc: true, f: -i.f}
			}
		}
	case token.XOR:
		i := v.(Int)
		if i.conc {
			return cInt(i.w, i.sgn, ^i.v)
		}
		return Int{w: i.w, sgn: i.sgn, t: "(bvnot " + i.t + ")"}
	case token.ARROW:
		return f.recv(x)
	}
	panic(engineErr("unop " + x.Op.String()))
}

func (f *frame) typeAssert(x *ssa.TypeAssert) Value {
	m := f.m
	i := m.resolveIfaceFor(f.get(x.X).(Iface), x.AssertedType)
	ok := false
	_, toIface := x.AssertedType.Underlying().(*types.Interface)
	if i.t != nil {
		if toIface {
			ok = types.Implements(i.t, x.AssertedType.Underlying().(*types.Interface))
		} else {
			ok = types.Identical(i.t, x.AssertedType)
		}
	}
	var res Value
	if ok {
		if toIface {
			res = i
		} else {
			res = i.v
		}
	} else {
		if !x.CommaOk {
			desc := "nil"
			if i.t != nil {
				desc = i.t.String()
			}
			panic(goPanic{msg: "interface conversion: interface is " + desc + ", not " + x.AssertedType.String(), pos: m.pos(x.Pos())})
		}
		res = zero(x.AssertedType)
	}
	if x.CommaOk {
		return Tuple{res, cBool(ok)}
	}
	return res
}

func (f *frame) doSlice(x *ssa.Slice) Value {
	m := f.m
	lo, hi, mx := -1, -1, -1
	bound := 1 << 30
	if x.Low != nil {
		lo = m.concIndex(f.get(x.Low), bound, "slice lo")
	}
	if x.High != nil {
		hi = m.concIndex(f.get(x.High), bound, "slice hi")
	}
	if x.Max != nil {
		mx = m.concIndex(f.get(x.Max), bound, "slice max")
	}
	oob := func() { panic(goPanic{msg: "slice bounds out of range", pos: m.pos(x.Pos())}) }
	switch c := m.force(f.get(x.X)).(type) {
	case Ptr: // pointer to array
		if c.obj == nil {
			panic(goPanic{msg: "invalid memory address or nil pointer dereference (slice)", pos: m.pos(x.Pos())})
		}
		n := len((*m.slot(c)).(Agg))
		if lo < 0 {
			lo = 0
		}
		if hi < 0 {
			hi = n
		}
		if mx < 0 {
			mx = n
		}
		if lo > hi || hi > mx || mx > n {
			oob()
		}
		if len(c.path) != 0 {
			// slice of an array embedded in a struct: detach by reference object
			inner := m.newObj(nil)
			inner.v = *m.slot(c)
			// keep aliasing: replace the slot by a shared Agg (Agg is a Go slice, shares backing store)
			return Slice{arr: inner, off: lo, ln: hi - lo, cp: mx - lo}
		}
		return Slice{arr: c.obj, off: lo, ln: hi - lo, cp: mx - lo}
	case Slice:
		if c.abs {
			if (lo <= 0) && x.High == nil {
				return c
			}
			return m.subAtom(c, lo, hi, x.Pos())
		}
		if lo < 0 {
			lo = 0
		}
		if hi < 0 {
			hi = c.ln
		}
		if mx < 0 {
			mx = c.cp
		}
		if lo > hi || hi > mx || mx > c.cp {
			oob()
		}
		if c.isNil {
			return c
		}
		return Slice{arr: c.arr, off: c.off + lo, ln: hi - lo, cp: mx - lo}
	case Str:
		if !c.conc && !c.isArr {
			if lo <= 0 && x.High == nil {
				return c
			}
			panic(engineErr("slicing an atom string at " + m.pos(x.Pos())))
		}
		bs := strBytes(c)
		if lo < 0 {
			lo = 0
		}
		if hi < 0 {
			hi = len(bs)
		}
		if lo > hi || hi > len(bs) {
			oob()
		}
		if c.conc {
			return Str{conc: true, s: c.s[lo:hi]}
		}
		return normStr(Str{isArr: true, arr: bs[lo:hi]})
	}
	panic(engineErr("slice of unsupported operand"))
}

// subAtom: a[lo:hi] of an atom byte slice with concrete bounds is again an atom whose label is an uninterpreted
// function of (a, lo, hi) (memoised per path); out-of-range bounds panic as in Go.
func (m *M) subAtom(c Slice, lo, hi int, pos token.Pos) Value {
	if lo < 0 {
		lo = 0
	}
	if hi >= 0 {
		if lo > hi {
			panic(goPanic{msg: "slice bounds out of range", pos: m.pos(pos)})
		}
		if m.branch(Bool{t: fmt.Sprintf("(bvult %s (_ bv%d 64))", c.lenT, hi)}) {
			panic(goPanic{msg: "slice bounds out of range", pos: m.pos(pos)})
		}
	} else if m.branch(Bool{t: fmt.Sprintf("(bvult %s (_ bv%d 64))", c.lenT, lo)}) {
		panic(goPanic{msg: "slice bounds out of range", pos: m.pos(pos)})
	}
	key := fmt.Sprintf("sub(%s,%s,%d,%d)", c.lenT, c.labT, lo, hi)
	if v, ok := m.lazyMemo[key]; ok {
		return v
	}
	n := m.seq("sub")
	r := Slice{abs: true, labT: m.sym(fmt.Sprintf("sub%d.lab", n), "(_ BitVec 64)")}
	if hi >= 0 {
		r.lenT = fmt.Sprintf("(_ bv%d 64)", hi-lo)
	} else {
		r.lenT = nameTerm("(_ BitVec 64)", fmt.Sprintf("(bvsub %s (_ bv%d 64))", c.lenT, lo))
	}
	m.lazyMemo[key] = r
	return r
}

// normStr turns an array-form string whose bytes are all concrete into a concrete string.
func normStr(s Str) Str {
	if !s.isArr {
		return s
	}
	bs := make([]byte, len(s.arr))
	for i, b := range s.arr {
		if !b.conc {
			return s
		}
		bs[i] = byte(b.v)
	}
	return Str{conc: true, s: string(bs)}
}

func (f *frame) doCall(c *ssa.CallCommon, pos token.Pos) Value {
	m := f.m
	args := make([]Value, 0, len(c.Args)+1)
	if c.IsInvoke() {
		recv := m.resolveIface(f.get(c.Value).(Iface))
		if recv.t == nil {
			panic(goPanic{msg: "invalid memory address or nil pointer dereference (method call on nil interface)", pos: m.pos(pos)})
		}
		fn := m.P.lookupMethod(recv.t, c.Method)
		if fn == nil {
			panic(engineErr(fmt.Sprintf("no method %s on %s", c.Method.Name(), recv.t)))
		}
		args = append(args, recv.v)
		for _, a := range c.Args {
			args = append(args, f.get(a))
		}
		return m.call(fn, args)
	}
	for _, a := range c.Args {
		args = append(args, f.get(a))
	}
	switch fn := f.get(c.Value).(type) {
	case *ssa.Builtin:
		return f.builtin(fn.Name(), args, c, pos)
	case Closure:
		if fn.fn == nil {
			panic(goPanic{msg: "invalid memory address or nil pointer dereference (nil func call)", pos: m.pos(pos)})
		}
		return m.callImpl(fn.fn, args, fn.fv)
	}
	panic(engineErr(fmt.Sprintf("call of %T", f.get(c.Value))))
}

func (f *frame) builtin(name string, args []Value, c *ssa.CallCommon, pos token.Pos) Value {
	m := f.m
	switch name {
	case "recover":
		return m.doRecover()
	case "close":
		ch := args[0].(Ptr)
		if ch.obj == nil {
			panic(goPanic{msg: "close of nil channel"})
		}
		cc := ch.obj.v.(*Chan)
		if cc.closed {
			panic(goPanic{msg: "close of closed channel"})
		}
		cc.closed = true
		cc.closeVC = m.sched.cur.release()
		return nil
	case "len", "cap":
		switch x := m.force(args[0]).(type) {
		case Slice:
			if x.abs {
				return Int{w: 64, sgn: true, t: x.lenT}
			}
			if name == "cap" {
				return cI(x.cp)
			}
			return cI(x.ln)
		case Str:
			if x.conc {
				return cI(len(x.s))
			}
			if x.isArr {
				return cI(len(x.arr))
			}
			return Int{w: 64, sgn: true, t: x.lenT}
		case Agg:
			return cI(len(x))
		case Ptr:
			if x.obj == nil {
				return cI(0)
			}
			switch o := x.obj.v.(type) {
			case *MapObj:
				m.materialiseAll(o)
				return cI(len(o.keys))
			case *Chan:
				if name == "cap" {
					return cI(o.cap)
				}
				return cI(len(o.buf))
			case Agg:
				return cI(len(o))
			}
		}
	case "append":
		s := m.force(args[0]).(Slice)
		var t Slice
		switch y := m.force(args[1]).(type) {
		case Slice:
			t = y
		case Str: // append([]byte, string...)
			t = m.convert(y, types.Typ[types.String], c.Args[0].Type(), pos).(Slice)
		}
		if t.abs || s.abs {
			if s.abs && !t.abs && t.ln == 0 {
				return s
			}
			if (s.isNil || (!s.abs && s.ln == 0)) && t.abs {
				return t
			}
			// concatenation of atoms
			var xs, ys Str
			if s.abs {
				xs = Str{lenT: s.lenT, labT: s.labT}
			} else {
				xs = m.convert(s, c.Args[0].Type(), types.Typ[types.String], pos).(Str)
			}
			if t.abs {
				ys = Str{lenT: t.lenT, labT: t.labT}
			} else {
				ys = m.convert(t, c.Args[0].Type(), types.Typ[types.String], pos).(Str)
			}
			r := m.strConcat(xs, ys)
			return Slice{abs: true, lenT: r.lenT, labT: r.labT}
		}
		et := c.Args[0].Type().Underlying().(*types.Slice).Elem()
		if t.ln == 0 {
			return s
		}
		var elems Agg
		if !s.isNil {
			elems = s.arr.v.(Agg)
		}
		if s.isNil || s.ln+t.ln > s.cp {
			nc := (s.ln + t.ln) * 2
			na := make(Agg, nc)
			for i := 0; i < nc; i++ {
				if i < s.ln {
					na[i] = copyVal(elems[s.off+i])
				} else {
					na[i] = zero(et)
				}
			}
			s = Slice{arr: m.newObj(na), off: 0, ln: s.ln, cp: nc}
		} else if m.merging > 0 && (s.arr.glob || s.arr.id < m.mergeBorn) {
			panic(mergeAbort{"append into pre-existing backing array"})
		}
		dst := s.arr.v.(Agg)
		src := m.sliceElems(t)
		for i := 0; i < t.ln; i++ {
			dst[s.off+s.ln+i] = copyVal(src[i])
		}
		s.ln += t.ln
		return s
	case "copy":
		d := m.force(args[0]).(Slice)
		var src Agg
		switch y := m.force(args[1]).(type) {
		case Slice:
			if y.abs || d.abs {
				panic(engineErr("copy involving atom bytes at " + m.pos(pos)))
			}
			src = m.sliceElems(y)
		case Str:
			for _, b := range strBytes(y) {
				src = append(src, b)
			}
		}
		n := len(src)
		if d.ln < n {
			n = d.ln
		}
		if n > 0 {
			if m.merging > 0 && (d.arr.glob || d.arr.id < m.mergeBorn) {
				panic(mergeAbort{"copy into pre-existing backing array"})
			}
			tmp := make(Agg, n)
			for i := 0; i < n; i++ {
				tmp[i] = copyVal(src[i])
			}
			dst := d.arr.v.(Agg)
			for i := 0; i < n; i++ {
				dst[d.off+i] = tmp[i]
			}
		}
		return cI(n)
	case "delete":
		mp := args[0].(Ptr)
		if mp.obj == nil {
			return nil
		}
		mo := mp.obj.v.(*MapObj)
		if mo.lazyGen != nil {
			// deleting a key nobody has looked at yet observes nothing: it is simply absent from now on
			if k := m.force(args[1]); isConcKey(k) {
				for i, u := range mo.universe {
					if !mo.asked[i] && isConcKey(u) {
						if b := m.valEqSafe(u, k); b.conc && b.v {
							mo.asked[i] = true
						}
					}
				}
			}
		}
		if i := m.mapFind(mo, args[1]); i >= 0 {
			mo.keys = append(append([]Value{}, mo.keys[:i]...), mo.keys[i+1:]...)
			mo.vals = append(append([]Value{}, mo.vals[:i]...), mo.vals[i+1:]...)
		}
		return nil
	case "ssa:wrapnilchk":
		p := m.force(args[0]).(Ptr)
		if p.obj == nil {
			panic(goPanic{msg: "value method called using nil pointer", pos: m.pos(pos)})
		}
		return p
	case "print", "println":
		return nil
	case "SliceData": // unsafe.SliceData(s): pointer to element 0 of the backing array (nil for a nil slice)
		sl := m.force(args[0]).(Slice)
		if sl.abs {
			panic(engineErr("unsafe.SliceData of an atom byte slice at " + m.pos(pos)))
		}
		if sl.isNil || sl.arr == nil {
			return Ptr{}
		}
		return Ptr{obj: sl.arr}.sub(sl.off)
	case "String": // unsafe.String(ptr, len): the bytes from *ptr on, which must be an element of a byte array
		p := m.force(args[0]).(Ptr)
		n, okn := m.force(args[1]).(Int)
		if !okn || !n.conc {
			panic(engineErr("unsafe.String with a symbolic length at " + m.pos(pos)))
		}
		if n.v == 0 {
			return Str{conc: true}
		}
		p.path = append([]int{}, p.path...)
		if p.obj == nil || len(p.path) != 1 {
			panic(engineErr("unsafe.String on something that is not an array element at " + m.pos(pos)))
		}
		a, isAgg := p.obj.v.(Agg)
		if !isAgg || p.path[0]+int(n.v) > len(a) {
			panic(engineErr("unsafe.String beyond its array at " + m.pos(pos)))
		}
		sl := Slice{arr: p.obj, off: p.path[0], ln: int(n.v), cp: int(n.v)}
		return m.convert(sl, types.NewSlice(types.Typ[types.Uint8]), types.Typ[types.String], pos)
	case "min", "max":
		r := m.force(args[0])
		for _, a := range args[1:] {
			a = m.force(a)
			op := token.LSS
			if name == "max" {
				op = token.GTR
			}
			c := m.binop(op, a, r, pos).(Bool)
			v, ok := iteVal(c, a, r)
			if !ok {
				panic(engineErr("min/max merge"))
			}
			r = v
		}
		return r
	case "clear":
		switch x := m.force(args[0]).(type) {
		case Ptr:
			if x.obj != nil {
				mo := x.obj.v.(*MapObj)
				mo.keys, mo.vals = nil, nil
			}
		case Slice:
			et := c.Args[0].Type().Underlying().(*types.Slice).Elem()
			el := m.sliceElems(x)
			for i := range el {
				el[i] = zero(et)
			}
		}
		return nil
	}
	panic(engineErr("builtin " + name + " at " + m.pos(pos)))
}
