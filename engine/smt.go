// smt.go: long-lived solver processes, term naming, models (DESIGN.md 2.5).
package main

import (
	"bufio"
	"fmt"
	"hash/fnv"
	"io"
	"os"
	"os/exec"
	"strings"
	"sync"
	"sync/atomic"
	"time"
)

// ---- global table of named terms (define-fun), shared by all workers; each solver defines a name on first use.
type namedTerm struct{ sort, body string }

var namedTerms sync.Map // name -> namedTerm

const nameThreshold = 200

func nameTerm(sort, body string) string {
	if len(body) < nameThreshold {
		return body
	}
	h := fnv.New64a()
	h.Write([]byte(sort))
	h.Write([]byte{0})
	h.Write([]byte(body))
	h2 := fnv.New32a()
	h2.Write([]byte(body))
	name := fmt.Sprintf("!t%016x%08x", h.Sum64(), h2.Sum32())
	namedTerms.LoadOrStore(name, namedTerm{sort, body})
	return name
}

func bvSort(w int) string { return fmt.Sprintf("(_ BitVec %d)", w) }

func nInt(i Int) Int {
	if !i.conc {
		i.t = nameTerm(bvSort(i.w), i.t)
	}
	return i
}
func nBool(b Bool) Bool {
	if !b.conc {
		b.t = nameTerm("Bool", b.t)
	}
	return b
}

type SolverKind int

const (
	kindZ3 SolverKind = iota
	kindCVC5
)

type Solver struct {
	name     string
	kind     SolverKind
	cmd      *exec.Cmd
	in       io.WriteCloser
	w        *bufio.Writer
	out      *bufio.Reader
	declared map[string]bool
	defined  map[string]bool
	queries  int64
	sat      int64
	unsat    int64
	unknown  int64
	dur      time.Duration
	depth    int
	log      *os.File
}

var solverBin = func() string {
	if b := os.Getenv("GOSYMEX_SOLVER"); b != "" {
		return b
	}
	if p, err := exec.LookPath("z3-new"); err == nil {
		return p
	}
	return "z3"
}()

var queryTimeoutMs = 20000

func newSolver(bin string) *Solver {
	var cmd *exec.Cmd
	kind := kindZ3
	if strings.Contains(bin, "cvc5") {
		kind = kindCVC5
		cmd = exec.Command(bin, "--incremental", "--lang=smt2", "--produce-models", fmt.Sprintf("--tlimit-per=%d", queryTimeoutMs))
	} else {
		cmd = exec.Command(bin, "-in")
	}
	in, _ := cmd.StdinPipe()
	out, _ := cmd.StdoutPipe()
	cmd.Stderr = os.Stderr
	if err := cmd.Start(); err != nil {
		panic(engineErr("cannot start solver " + bin + ": " + err.Error()))
	}
	s := &Solver{name: bin, kind: kind, cmd: cmd, in: in, w: bufio.NewWriterSize(in, 1<<16), out: bufio.NewReaderSize(out, 1<<16), declared: map[string]bool{}, defined: map[string]bool{}}
	if lf := os.Getenv("GOSYMEX_SMTLOG"); lf != "" {
		s.log, _ = os.Create(fmt.Sprintf("%s.%d", lf, atomic.AddInt64(&solverSeq, 1)))
	}
	s.raw("(set-option :global-declarations true)")
	s.raw("(set-option :produce-models true)")
	if kind == kindZ3 {
		s.raw(fmt.Sprintf("(set-option :timeout %d)", queryTimeoutMs))
	} else {
		s.raw("(set-logic QF_BV)")
	}
	return s
}

var solverSeq int64

func (s *Solver) close() {
	s.raw("(exit)")
	s.w.Flush()
	s.in.Close()
	s.cmd.Wait()
}

func (s *Solver) raw(x string) {
	if s.log != nil {
		s.log.WriteString(x + "\n")
	}
	s.w.WriteString(x)
	s.w.WriteByte('\n')
}

// ensure declares/defines every named term occurring in x before x is sent.
func (s *Solver) ensure(x string) {
	for i := 0; i+2 < len(x); i++ {
		if x[i] == '!' && x[i+1] == 't' {
			j := i + 2
			for j < len(x) && (x[j] >= '0' && x[j] <= '9' || x[j] >= 'a' && x[j] <= 'f') {
				j++
			}
			name := x[i:j]
			if j-i == 26 && !s.defined[name] {
				if nt, ok := namedTerms.Load(name); ok {
					s.defined[name] = true
					d := nt.(namedTerm)
					s.ensure(d.body)
					s.raw(fmt.Sprintf("(define-fun %s () %s %s)", name, d.sort, d.body))
				}
			}
			i = j
		}
	}
}

func (s *Solver) send(x string) { s.ensure(x); s.raw(x) }

func (s *Solver) declare(name, sort string) {
	if !s.declared[name] {
		s.declared[name] = true
		s.raw(fmt.Sprintf("(declare-const %s %s)", name, sort))
	}
}

func (s *Solver) setTimeout(ms int) {
	if s.kind == kindZ3 {
		s.raw(fmt.Sprintf("(set-option :timeout %d)", ms))
	}
}

func (s *Solver) push() { s.raw("(push 1)"); s.depth++ }
func (s *Solver) pop(n int) {
	if n > 0 {
		s.raw(fmt.Sprintf("(pop %d)", n))
		s.depth -= n
	}
}
func (s *Solver) assert(t string) { s.send("(assert " + t + ")") }

func (s *Solver) readLine() string {
	s.w.Flush()
	line, err := s.out.ReadString('\n')
	if err != nil {
		panic(engineErr("solver " + s.name + " died: " + err.Error()))
	}
	return strings.TrimSpace(line)
}

// readSexp reads one balanced s-expression (possibly spanning lines).
func (s *Solver) readSexp() string {
	s.w.Flush()
	var sb strings.Builder
	depth, started, inBar := 0, false, false
	for {
		c, err := s.out.ReadByte()
		if err != nil {
			panic(engineErr("solver " + s.name + " died: " + err.Error()))
		}
		sb.WriteByte(c)
		switch {
		case c == '|':
			inBar = !inBar
		case inBar:
		case c == '(':
			depth++
			started = true
		case c == ')':
			depth--
		}
		if started && depth == 0 {
			// consume rest of line
			for {
				c, err := s.out.ReadByte()
				if err != nil || c == '\n' {
					break
				}
			}
			return sb.String()
		}
	}
}

type satResult int

const (
	resSat satResult = iota
	resUnsat
	resUnknown
)

// checkRes: is (current stack ∧ extra) satisfiable?
func (s *Solver) checkRes(extra string) satResult {
	t0 := time.Now()
	s.queries++
	pushed := false
	if extra != "" {
		s.raw("(push 1)")
		s.send("(assert " + extra + ")")
		pushed = true
	}
	s.raw("(check-sat)")
	line := s.readLine()
	if pushed {
		s.raw("(pop 1)")
	}
	s.dur += time.Since(t0)
	switch line {
	case "sat":
		s.sat++
		return resSat
	case "unsat":
		s.unsat++
		return resUnsat
	}
	s.unknown++
	if strings.HasPrefix(line, "(error") {
		fmt.Fprintln(os.Stderr, "solver error line:", line, "on", clip(extra, 400))
	}
	return resUnknown
}

func clip(s string, n int) string {
	if len(s) > n {
		return s[:n] + "…"
	}
	return s
}

// model: values of names under (stack ∧ extra); nil if not sat.
func (s *Solver) model(extra string, names []string) map[string]string {
	s.raw("(push 1)")
	if extra != "" {
		s.send("(assert " + extra + ")")
	}
	s.raw("(check-sat)")
	line := s.readLine()
	if line != "sat" {
		s.raw("(pop 1)")
		return nil
	}
	m := map[string]string{}
	const batch = 40
	for i := 0; i < len(names); i += batch {
		j := i + batch
		if j > len(names) {
			j = len(names)
		}
		s.raw("(get-value (" + strings.Join(names[i:j], " ") + "))")
		parseModel(s.readSexp(), m)
	}
	s.raw("(pop 1)")
	return m
}

// parseModel parses ((name value) (name value) ...) with bit-vector / Bool values.
func parseModel(sexp string, m map[string]string) {
	toks := tokenize(sexp)
	// expect ( ( n v ) ( n v ) ... )
	i := 0
	if i < len(toks) && toks[i] == "(" {
		i++
	}
	for i < len(toks) && toks[i] == "(" {
		i++
		if i >= len(toks) {
			break
		}
		name := toks[i]
		i++
		// value: atom or parenthesised
		var val string
		if i < len(toks) && toks[i] == "(" {
			d := 0
			var parts []string
			for i < len(toks) {
				if toks[i] == "(" {
					d++
				}
				if toks[i] == ")" {
					d--
				}
				parts = append(parts, toks[i])
				i++
				if d == 0 {
					break
				}
			}
			val = strings.Join(parts, " ")
		} else if i < len(toks) {
			val = toks[i]
			i++
		}
		m[name] = val
		if i < len(toks) && toks[i] == ")" {
			i++
		}
	}
}

func tokenize(s string) []string {
	var toks []string
	for i := 0; i < len(s); {
		c := s[i]
		switch {
		case c == '(' || c == ')':
			toks = append(toks, string(c))
			i++
		case c == ' ' || c == '\n' || c == '\t' || c == '\r':
			i++
		case c == '|':
			j := i + 1
			for j < len(s) && s[j] != '|' {
				j++
			}
			toks = append(toks, s[i:j+1])
			i = j + 1
		default:
			j := i
			for j < len(s) && s[j] != '(' && s[j] != ')' && s[j] != ' ' && s[j] != '\n' && s[j] != '\t' {
				j++
			}
			toks = append(toks, s[i:j])
			i = j
		}
	}
	return toks
}

// modelUint parses a bit-vector model value (#x.., #b.., (_ bvN w)).
func modelUint(v string) (uint64, bool) {
	switch {
	case strings.HasPrefix(v, "#x"):
		var r uint64
		_, err := fmt.Sscanf(v[2:], "%x", &r)
		return r, err == nil
	case strings.HasPrefix(v, "#b"):
		var r uint64
		for _, c := range v[2:] {
			r = r<<1 | uint64(c-'0')
		}
		return r, true
	case strings.HasPrefix(v, "( _ bv"):
		var r uint64
		var w int
		_, err := fmt.Sscanf(v, "( _ bv%d %d )", &r, &w)
		return r, err == nil
	}
	return 0, false
}
