// lazy.go: type-directed lazy havoc (DESIGN.md 2.2) and lazily refined interface values.
package main

import (
	"fmt"
	"go/types"
	"strconv"
	"strings"
)

func (m *M) force(v Value) Value {
	for {
		l, ok := v.(Lazy)
		if !ok {
			return v
		}
		if mv, ok := m.lazyMemo[l.name]; ok {
			v = copyVal(mv)
			continue
		}
		mv := m.build(l)
		m.lazyMemo[l.name] = mv
		v = copyVal(mv)
	}
}

func (m *M) atomSlice(name string) Slice {
	return Slice{abs: true, lenT: m.atomLen(name), labT: m.sym(name+".lab", "(_ BitVec 64)")}
}
func (m *M) atomStr(name string) Str {
	return Str{lenT: m.atomLen(name), labT: m.sym(name+".lab", "(_ BitVec 64)")}
}

// atomLen: a symbolic non-negative length below 2^40.
func (m *M) atomLen(name string) string {
	l := m.sym(name+".len", "(_ BitVec 64)")
	m.assume(fmt.Sprintf("(bvult %s (_ bv1099511627776 64))", l))
	return l
}

func (m *M) mkTime(name string) Value {
	// wall-clock-only representation: wall = nsec (< 1e9, no monotonic bit), ext = seconds since year 1, loc nil
	ns := m.symInt(name+".nsec", 64, false)
	m.assume(fmt.Sprintf("(bvult %s (_ bv1000000000 64))", ns.t))
	sec := m.symInt(name+".sec", 64, true)
	// keep seconds in a range where time arithmetic of the code under test cannot overflow (|sec| < 2^55)
	m.assume(fmt.Sprintf("(and (bvslt %s (_ bv36028797018963968 64)) (bvsgt %s (bvneg (_ bv36028797018963968 64))))", sec.t, sec.t))
	return Agg{ns, sec, Ptr{}}
}

func parseOID(s string) []uint64 {
	var r []uint64
	for _, p := range strings.Split(s, ".") {
		v, _ := strconv.ParseUint(p, 10, 64)
		r = append(r, v)
	}
	return r
}

func (m *M) oidSlice(arcs []uint64) Slice {
	a := make(Agg, len(arcs))
	for i, x := range arcs {
		a[i] = cInt(64, true, x)
	}
	return Slice{arr: m.newObj(a), ln: len(a), cp: len(a)}
}

func (m *M) build(l Lazy) Value {
	if m.merging > 0 {
		m.mergeBornGuard()
	}
	ts := types.TypeString(l.t, nil)
	{
		var best *substrFn
		for i := range m.H.havocField {
			hf := &m.H.havocField[i]
			if strings.HasSuffix(l.name, hf.suffix) && (best == nil || len(hf.suffix) > len(best.suffix)) {
				best = hf
			}
		}
		if best != nil {
			return m.call(best.fn, []Value{cStr(l.name)})
		}
	}
	if h, ok := m.H.havocFuncs[ts]; ok {
		// harness-provided constructor: func(name string) T
		return m.call(h, []Value{cStr(l.name)})
	}
	switch ts {
	case "time.Time":
		return m.mkTime(l.name)
	case "*math/big.Int":
		if m.H.nilable(l.name) && m.decide(2, "nil "+l.name) == 1 {
			return Ptr{}
		}
		o := m.newObj(m.symInt(l.name, 64, false))
		o.name = "big:" + l.name
		return Ptr{obj: o}
	case "encoding/asn1.ObjectIdentifier":
		pool := m.H.oidPool(l.name)
		k := m.decide(len(pool), "oid "+l.name)
		return m.oidSlice(parseOID(pool[k]))
	case "encoding/asn1.RawContent", "[]byte", "[]uint8":
		return m.atomSlice(l.name)
	}
	switch u := l.t.Underlying().(type) {
	case *types.Basic:
		if w, s, ok := intInfo(l.t); ok {
			return m.symInt(l.name, w, s)
		}
		switch {
		case u.Info()&types.IsBoolean != 0:
			return m.symBool(l.name)
		case u.Info()&types.IsString != 0:
			return m.atomStr(l.name)
		case u.Info()&types.IsFloat != 0:
			return Float{t: m.sym(l.name+".f", "(_ BitVec 64)")}
		}
	case *types.Struct:
		a := make(Agg, u.NumFields())
		for i := range a {
			a[i] = Lazy{u.Field(i).Type(), l.name + "." + u.Field(i).Name()}
		}
		return a
	case *types.Array:
		a := make(Agg, u.Len())
		for i := range a {
			a[i] = Lazy{u.Elem(), fmt.Sprintf("%s[%d]", l.name, i)}
		}
		return a
	case *types.Slice:
		if b, ok := u.Elem().Underlying().(*types.Basic); ok && b.Kind() == types.Uint8 {
			return m.atomSlice(l.name)
		}
		n := m.decide(m.H.sliceBound(l.name)+1, "len "+l.name)
		a := make(Agg, n)
		for i := range a {
			a[i] = Lazy{u.Elem(), fmt.Sprintf("%s[%d]", l.name, i)}
		}
		if n == 0 {
			return Slice{isNil: true}
		}
		return Slice{arr: m.newObj(a), ln: n, cp: n}
	case *types.Pointer:
		if m.H.nilable(l.name) && m.decide(2, "nil "+l.name) == 1 {
			return Ptr{}
		}
		o := m.newObj(Lazy{u.Elem(), l.name + ".*"})
		o.name = l.name
		return Ptr{obj: o}
	case *types.Interface:
		cands := m.H.ifaceCands(l.name, l.t)
		if cands == nil {
			return Iface{}
		}
		return Iface{u: &UndIface{name: l.name, cands: cands}}
	case *types.Map, *types.Chan:
		return Ptr{}
	case *types.Signature:
		return Closure{}
	}
	panic(engineErr("lazy build " + ts))
}

func (m *M) mergeBornGuard() {}

// resolveIface fixes the dynamic type of a havoced interface value (shape fork over the admissible types).
func (m *M) resolveIface(i Iface) Iface {
	if i.u == nil {
		return i
	}
	u := i.u
	if !u.resolved {
		k := m.decide(len(u.cands), "dyn type "+u.name)
		t := u.cands[k]
		if t == nil {
			u.val = Iface{}
		} else {
			u.val = Iface{t: t, v: Lazy{t, u.name + "." + shortType(t)}}
		}
		u.resolved = true
		m.tracef("%s has dynamic type %v", u.name, t)
	}
	return u.val
}

func (m *M) resolveIfaceFor(i Iface, _ types.Type) Iface { return m.resolveIface(i) }

func shortType(t types.Type) string {
	s := types.TypeString(t, func(p *types.Package) string { return p.Name() })
	return s
}
