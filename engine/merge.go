// merge.go: pure callees are explored locally and merged into ite terms (DESIGN.md 7a, consequence 2).
// The local exploration is solver-free (every symbolic branch not decided by the local path is explored on
// both sides), so the merged term does not depend on the solver state and is identical on re-execution.
package main

import (
	"golang.org/x/tools/go/ssa"
)

type mergeAbort struct{ why string }

type mergeCtx struct {
	prefix  []int
	taken   []int
	conds   []Bool
	journal []string
}

const mergeMaxPaths = 48


func (m *M) mergeBranch(c Bool) bool {
	mg := m.mg
	k := len(mg.taken)
	d := 0
	if k < len(mg.prefix) {
		d = mg.prefix[k]
	}
	mg.taken = append(mg.taken, d)
	val := d == 0
	if val {
		mg.conds = append(mg.conds, c)
	} else {
		mg.conds = append(mg.conds, bNot(c))
	}
	if _, had := m.known[c.t]; !had {
		mg.journal = append(mg.journal, c.t)
	}
	m.known[c.t] = val
	return val
}

// tryMerge explores fn(args) over all local paths; ok=false means the call must be executed normally.
func (m *M) tryMerge(fn *ssa.Function, args []Value, fv []Value) (res Value, ok bool) {
	m.st.mergeCalls++
	type outcome struct {
		cond Bool
		val  Value
	}
	var outs []outcome
	work := [][]int{nil}
	savedBorn := m.mergeBorn
	savedKnown := m.known
	// local knowledge only: the merged term must not depend on what the path condition implies
	m.known = map[string]bool{}
	m.mergeBorn = m.objCount + 1
	m.merging++
	savedMg := m.mg
	savedSteps := m.steps
	defer func() {
		m.merging--
		m.mergeBorn = savedBorn
		m.mg = savedMg
		m.known = savedKnown
		if r := recover(); r != nil {
			switch r.(type) {
			case mergeAbort, goPanic:
				m.st.mergeAborts++
				m.steps = savedSteps
				res, ok = nil, false
				return
			}
			panic(r)
		}
	}()
	for len(work) > 0 {
		pre := work[len(work)-1]
		work = work[:len(work)-1]
		mg := &mergeCtx{prefix: pre}
		m.mg = mg
		v := m.callBody(fn, args, fv)
		for _, k := range mg.journal {
			delete(m.known, k)
		}
		pc := cBool(true)
		for _, c := range mg.conds {
			pc = bAnd(pc, c)
		}
		outs = append(outs, outcome{pc, v})
		if len(outs) > mergeMaxPaths {
			panic(mergeAbort{"too many local paths"})
		}
		for i := len(pre); i < len(mg.taken); i++ {
			if mg.taken[i] == 0 {
				np := append(append([]int{}, mg.taken[:i]...), 1)
				work = append(work, np)
			}
		}
	}
	// merge: ite chain, last outcome is the default
	cur := outs[len(outs)-1].val
	for i := len(outs) - 2; i >= 0; i-- {
		mv, ok := iteVal(nBool(outs[i].cond), outs[i].val, cur)
		if !ok {
			panic(mergeAbort{"results not mergeable"})
		}
		cur = nameVal(mv)
	}
	return cur, true
}

func nameVal(v Value) Value {
	switch x := v.(type) {
	case Int:
		return nInt(x)
	case Bool:
		return nBool(x)
	case Agg:
		for i := range x {
			x[i] = nameVal(x[i])
		}
	case Tuple:
		for i := range x {
			x[i] = nameVal(x[i])
		}
	}
	return v
}

// callBody runs the body of fn without the merge hook (used by tryMerge).
func (m *M) callBody(fn *ssa.Function, args []Value, fv []Value) Value {
	m.merging++ // nested calls of mergeable functions are simply part of the local exploration
	defer func() { m.merging-- }()
	return m.callImpl(fn, args, fv)
}
