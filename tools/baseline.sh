#!/usr/bin/env bash
# baseline.sh: run the repository's own test suite on /repo's working tree and compare with the pinned list of
# stable-passing tests in /root/.vp/BASELINE.json. Prints the stable tests that do not pass; exit 0 iff none.
export GOFLAGS=-mod=mod GOPROXY=off GOSUMDB=off GOTOOLCHAIN=local
out=$(mktemp)
(cd /repo && go test -json -vet=off -count=1 -timeout 25m ./... > "$out" 2>/dev/null)
python3 - "$out" <<'PY'
import json,sys
res={}
for l in open(sys.argv[1]):
    try: d=json.loads(l)
    except Exception: continue
    if d.get('Test') and d.get('Action') in ('pass','fail','skip'):
        res[d['Package']+'::'+d['Test']]=d['Action']
base=json.load(open('/root/.vp/BASELINE.json'))
bad=[t for t in base['stable_pass'] if res.get(t)!='pass']
print(f"stable_pass={len(base['stable_pass'])} passing_now={len(base['stable_pass'])-len(bad)}")
for t in bad: print("NOT PASSING:",t,res.get(t))
sys.exit(1 if bad else 0)
PY
rc=$?
rm -f "$out"
exit $rc
