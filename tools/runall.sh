#!/bin/bash
# runs every claimed check (tier $1, default quick) and prints one line per property
tier=${1:-quick}
for p in $(python3 -c "import json;print(' '.join(c['property_id'] for c in json.load(open('/verif/MANIFEST.json'))['checks']))"); do
  s=$(date +%s)
  out=$(/verif/check.sh $p $tier 2>&1); e=$?
  echo "$p exit=$e $(( $(date +%s)-s ))s $(echo "$out" | grep -E '^(OK|VIOLATION|INCONCLUSIVE|KNOWN)' | head -2 | tr '\n' ' ')"
done
