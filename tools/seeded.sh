#!/bin/bash
# usage: seeded.sh <seed id> <property> <worktree> <test packages...>
# Confirms a sub-agent's change in its scratch worktree (existing tests pass with it, the demonstration fails with it
# and passes without it), stores it under /verif/seeded/<id>/ (patch.diff = git diff of the worktree, the untracked
# *_test.go as demo_test.go.txt, confirm.log), then runs the property's quick check against the change through overlays
# (selftest/seeded.sh; /repo itself is not touched) and stores check.log.
set -u
export GOFLAGS=-mod=mod GOPROXY=off GOSUMDB=off GOTOOLCHAIN=local
id=$1; prop=$2; wt=$3; shift 3; pkgs="$@"
out=/verif/seeded/$id; mkdir -p $out
cd $wt || exit 2
demo=$(git status --porcelain | grep '^??' | awk '{print $2}' | grep '_test.go$' | head -1)
[ -z "$demo" ] && { echo "no demo test file found in worktree"; exit 2; }
git diff > $out/patch.diff
[ -s $out/patch.diff ] || { echo "worktree has no change"; exit 2; }
cp $demo $out/demo_test.go.txt
sed -i "1s#^#// demonstration of seeded change $id; copy to $demo\n#" $out/demo_test.go.txt
dpkg=./$(dirname $demo)
log=$out/confirm.log; : > $log
echo "== existing tests with the change (demo moved aside): go test -vet=off -count=1 $pkgs" >> $log
mv $demo /tmp/demo_$id.go.aside
go build ./... >> $log 2>&1; go test -vet=off -count=1 $pkgs >> $log 2>&1; e1=$?
mv /tmp/demo_$id.go.aside $demo
echo "== demo with the change" >> $log
go test -vet=off -count=1 -run "TestDemo" $dpkg >> $log 2>&1; e2=$?
echo "== demo without the change" >> $log
git apply -R $out/patch.diff
go test -vet=off -count=1 -run "TestDemo" $dpkg >> $log 2>&1; e3=$?
git apply $out/patch.diff
echo "existing-tests-with-change exit=$e1 demo-with-change exit=$e2 demo-without-change exit=$e3" | tee -a $log
grep -E "^(--- FAIL|FAIL|ok)" $log | sort | uniq -c | head -20
# run the check against the change (overlay)
/verif/selftest/seeded.sh $id $prop > $out/check.log 2>&1; ce=$?
echo "check exit=$ce: $(grep -E '^VIOLATION|INCONCLUSIVE|^OK' $out/check.log | head -2 | tr '\n' ' ')"
grep -E "^  (assert|panic|deadlock|abort|race|leak)" $out/check.log | sort | uniq -c | head -5
