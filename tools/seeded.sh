#!/bin/bash
# usage: seeded.sh <seed id> <property> <worktree> <test packages...>
# Confirms a sub-agent's change in its scratch worktree (existing tests pass with it, demo fails with it and passes
# without it), stores it under /verif/seeded/<id>/, then runs the property's quick check against it in /repo (applied and
# reverted straight afterwards).
set -u
export GOFLAGS=-mod=mod GOPROXY=off GOSUMDB=off GOTOOLCHAIN=local
id=$1; prop=$2; wt=$3; shift 3; pkgs="$@"
out=/verif/seeded/$id; mkdir -p $out
cd $wt || exit 2
cp patch.diff $out/patch.diff
cp demo_test.go.txt $out/demo_test.go.txt
demo=$(git status --porcelain | grep '^??' | awk '{print $2}' | grep '_test.go$' | head -1)
[ -z "$demo" ] && { echo "no demo test file found in worktree"; exit 2; }
name=$(grep -o 'func Test[A-Za-z0-9_]*' $demo | head -1 | sed 's/func //')
dpkg=./$(dirname $demo)
log=$out/confirm.log; : > $log
echo "== existing tests with the change (demo moved aside)" >> $log
mv $demo /tmp/demo_$id.go.aside
go build ./... >> $log 2>&1; go test -vet=off -count=1 $pkgs >> $log 2>&1; e1=$?
mv /tmp/demo_$id.go.aside $demo
echo "== demo with the change" >> $log
go test -vet=off -count=1 -run "$name" $dpkg >> $log 2>&1; e2=$?
echo "== demo without the change" >> $log
git diff > /tmp/seed_$id.diff; git apply -R /tmp/seed_$id.diff
go test -vet=off -count=1 -run "$name" $dpkg >> $log 2>&1; e3=$?
git apply /tmp/seed_$id.diff; rm -f /tmp/seed_$id.diff
echo "existing-tests-with-change exit=$e1 demo-with-change exit=$e2 demo-without-change exit=$e3" | tee -a $log
# run the check against the change
cd /repo && git apply $out/patch.diff || { echo "patch does not apply to /repo"; exit 2; }
/verif/bin/gosymex check $prop --no-evidence > $out/check.log 2>&1; ce=$?
git -C /repo checkout -- . 
echo "check exit=$ce: $(grep -E '^VIOLATION|INCONCLUSIVE|^OK' $out/check.log | head -2 | tr '\n' ' ')"
grep -E "^  (assert|panic|deadlock|abort|race|leak)" $out/check.log | sort | uniq -c | head -5
