#!/bin/bash
# runs every mutant of selftest/mutants against the check of its property (overlay; /repo untouched) and prints a table
cd /verif/selftest/mutants
for f in *.patch; do
  id=${f%%_*}; prop=$(echo $f | sed 's/.*_\(C[0-9]*\)\.patch/\1/')
  out=$(timeout 1500 /verif/selftest/mutant.sh $id 2>&1); 
  v=$(echo "$out" | grep -c '^VIOLATION'); inc=$(echo "$out" | grep -c 'INCONCLUSIVE property'); ok=$(echo "$out" | grep -c '^OK property'); fail=$(echo "$out" | grep -c 'FAILED')
  first=$(echo "$out" | grep -E '^  (assert|panic|deadlock|abort|race|leak)' | head -1 | sed 's/^ *//' | cut -c1-110)
  echo "$id $prop violations=$v ok=$ok inconclusive=$inc patchfail=$fail | $first"
done
