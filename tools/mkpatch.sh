#!/bin/sh
# usage: mkpatch.sh <Mid> <Cxx> <file relative to /repo> <sed expression>  — (re)generates a single-site mutant patch against the current /repo tree
t=$(mktemp -d); mkdir -p $t/a/$(dirname $3) $t/b/$(dirname $3); cp /repo/$3 $t/a/$3; sed "$4" /repo/$3 > $t/b/$3
(cd $t && diff -u a/$3 b/$3 | sed 's/^\(--- a\/[^\t]*\)\t.*/\1/; s/^\(+++ b\/[^\t]*\)\t.*/\1/' > /verif/selftest/mutants/$1_$2.patch); rm -rf $t
grep -c '^[-+][^-+]' /verif/selftest/mutants/$1_$2.patch
