#!/bin/sh
# engine_selftest.sh: differential validation of the executor against the native tool chain (DESIGN.md 2.9).
# Regenerates harness/ENGINE/zz_cases.go (copy of selftest/engine/cases/cases.go) and zz_expected.go (what `go run`
# computes natively), then has the executor run the same programs: concretely (interpreter semantics) and with symbolic
# integers pinned by assumptions (SMT encoding; the solver decides equality with the native result).
set -e
export GOFLAGS=-mod=mod GOPROXY=off GOSUMDB=off GOTOOLCHAIN=local
cd /verif
sed -e '1s/^/\/\/go:build verif\n\n\/\/verif:pkg internal\/algorithm\n/' -e 's/^package cases$/package algorithm/' selftest/engine/cases/cases.go > harness/ENGINE/zz_cases.go
(cd selftest/engine && go run ./gen -pkg algorithm | sed 's#^// generated#//verif:pkg internal/algorithm\n// generated#' > /verif/harness/ENGINE/zz_expected.go)
exec /verif/bin/gosymex check ENGINE --no-evidence "$@"
