#!/usr/bin/env python3
"""Regenerates /verif/MANIFEST.json from tools/claims.json (claimed properties) and properties.jsonl."""
import json
props=[json.loads(l) for l in open('/verif/properties.jsonl') if l.strip()]
claims=json.load(open('/verif/tools/claims.json'))
checks=[]; na=[]
for p in props:
    c=claims.get(p['id'])
    if not c or c.get('not_applicable'):
        na.append({"property_id":p['id'],"reason":(c or {}).get('not_applicable',"check under construction; will be claimed once it runs clean on the unchanged tree")})
        continue
    checks.append({
        "property_id":p['id'],
        "quick_cmd":f"/verif/check.sh {p['id']} quick",
        "thorough_cmd":f"/verif/check.sh {p['id']} thorough",
        "evidence_file":f"/verif/evidence/{p['id']}.json",
        "replay_cmd_template":"/verif/bin/gosymex replay {path}",
        "engine":"gosymex",
        "level_claimed":{"category":"model_checking","text":c['text'],"design_ref":c.get('design_ref','DESIGN.md section 5, '+p['id'])},
        "level_note":c['note'],
        "technique":c.get('technique',"bounded symbolic execution of the real code from go/ssa (own encoder), every assertion decided by z3 (QF_BV) with cvc5/z3-4.8 cross-check; counterexamples replayed")
    })
m={"version":1,
 "setup_cmd":"cd /verif && ./setup.sh",
 "hooks":{"guard":"verif","enable":"no hooks are compiled into /repo: harness files (//go:build verif) and the intrinsics package are injected through a go/packages overlay with -tags verif","baseline_off_cmd":"cd /repo && GOFLAGS=-mod=mod GOPROXY=off go test -json -vet=off -count=1 -timeout 25m ./...","source_commits":[],"add_only":True},
 "engines":[{"name":"gosymex","path":"/verif/engine","serves_properties":[c['property_id'] for c in checks],"kind_free_text":"own path-based symbolic executor over go/ssa of /repo's working tree (rebuilt on every run); QF_BV queries to a long-lived z3 per worker, cvc5 / z3 4.8 as fallback and cross-check"}],
 "checks":checks,
 "not_applicable":na,
 "notes":"Exit codes of every check: 0 held within the stated bounds (KNOWN-FINDING lines possible), 1 replayed counterexample (VIOLATION line), 2 inconclusive (no claim). Bounds, stubs, encoded functions, query counts and solver time are in evidence/<id>.json."}
json.dump(m,open('/verif/MANIFEST.json','w'),indent=1)
print("claimed:",[c['property_id'] for c in checks])
